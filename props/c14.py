"""C14: batching loses nothing: buckets, loaders and collation preserve every utterance."""
import copy
import hashlib
import itertools
import warnings

import numpy as np
import torch

from simkit.core import HarnessError, RunResult, short_hash
from simkit.simdist import SimDist, perturb_global_rngs
from simkit.simfs import SimFS, patched, ROOT
from . import corpus

ID = "C14"
LEVEL = {"quick": "exploration", "thorough": "exploration"}


# ---------------------------------------------------------------------------------------
def generate(rng, tier, index):
    kind = rng.choice(["spect", "spect", "spect", "lang", "lang", "ctx", "bare"])
    n = rng.choice([0, 1, 2, 3, 5, 6, 8, 8, 12, 12, 16, 24, 40])
    W = rng.choice([1, 1, 2, 2, 3])
    style = rng.randrange(3)
    if style == 0:
        lens = [rng.randrange(1, 13) for _ in range(n)]
    elif style == 1:  # many ties
        pool = rng.sample(range(1, 13), rng.randrange(1, 4))
        lens = [rng.choice(pool) for _ in range(n)]
    else:  # one long outlier, rest short
        lens = [rng.randrange(1, 4) for _ in range(n)]
        if n:
            lens[rng.randrange(n)] = rng.choice([12, 12, 33])
    sc = {
        "kind": kind,
        "n": n,
        "W": W,
        "lens": lens,
        "F": rng.randrange(1, 4),
        "rlens": [rng.randrange(1, 6) for _ in range(n)],
        "salt": rng.randrange(1000),
        "id_style": rng.randrange(4),
        "with_ali": rng.random() < 0.6,
        "with_ref": rng.random() < 0.8,
        "ref2d": rng.random() < 0.4,
        "prefix": rng.choice(["", "", "p_"]),
        "suffix": rng.choice([".pt", ".pt", ".t"]),
        "batch_size": rng.choice([1, 2, 2, 3, 4, 6]),
        "num_length_buckets": rng.choice([1, 1, 2, 2, 3, 4]),
        "size_batch_by_length": rng.random() < 0.4,
        "drop_last": rng.random() < 0.4,
        "shuffle": rng.random() < 0.7,
        "sort_batch": rng.random() < 0.5,
        "batch_first": rng.random() < 0.5,
        "suppress_alis": rng.random() < 0.5,
        "suppress_uttids": rng.random() < 0.5,
        "tokens_only": rng.random() < 0.5,
        "sos": rng.choice([None, None, 0]),
        "eos": rng.choice([None, None, 1]),
        "delta_order": rng.choice([0, 0, 0, 1, 2]),
        "do_mvn": rng.random() < 0.25,
        "mode": rng.choice(["raise", "uneven", "uneven", "ignore"]),
        "seed": rng.choice([None, rng.randrange(1000)]),
        "torch_seed": rng.randrange(1, 10000),
        "left": rng.randrange(0, 3),
        "right": rng.randrange(0, 3),
        "reverse": rng.random() < 0.3,
        "init_epoch": [rng.choice([0, 0, 1, 3]) for _ in range(W)],
        "len_mid_epoch": rng.random() < 0.3,
    }
    # one empty transcript; not together with dynamic batch sizes unless sos/eos make its
    # loaded length positive: "x * y <= Y * batch_size" leaves x undefined for y = 0
    if kind in ("spect", "ctx") and n >= 3 and rng.random() < 0.25:
        # alignments / references missing for some utterances: the data set is the intersection
        sc["missing"] = [[rng.randrange(n), rng.choice(["ali", "ref"])] for _ in range(rng.randrange(1, 3))]
    if kind == "lang" and rng.random() < 0.3 and n and not (sc["size_batch_by_length"] and sc["sos"] is None and sc["eos"] is None):
        sc["rlens"][rng.randrange(n)] = 0
    if rng.random() < 0.004:
        # beyond 8-bit counters: more than 256 length classes
        sc.update(kind="lang", n=300, W=1, rlens=rng.sample(range(1, 321), 300), lens=[1] * 300, num_length_buckets=rng.choice([257, 300]), batch_size=2,
                  size_batch_by_length=rng.random() < 0.5, shuffle=True, ref2d=False, sos=None, eos=None, init_epoch=[0], mode="uneven")
        kind, n, W = "lang", 300, 1
    if kind == "bare":
        nb = rng.randrange(1, 4)
        sc["idx2bucket"] = [rng.randrange(nb) for _ in range(n)]
        sc["bucket2size"] = [rng.randrange(1, 5) for _ in range(nb)]
        sc["bucket_names"] = rng.choice(["int", "str", "neg", "tuple"])
    ops = []
    for _ in range(rng.randrange(2, 7) if n < 100 else 1):
        r = rng.randrange(W)
        k = rng.random()
        if k < 0.5:
            ops.append(["epoch", r])
        elif k < 0.62:
            ops.append(["abandon", r, rng.randrange(0, 4)])  # k batches of an epoch, then the iterator is dropped
        elif k < 0.72:
            ops.append(["restart", r])
        elif k < 0.85:
            ops.append(["jump", r, rng.randrange(0, 5)])
        else:
            ops.append(["perturb", rng.randrange(1, 1000)])
    ops.append(["epoch", rng.randrange(W)])
    sc["ops"] = ops
    sc["exact_len"] = rng.random() < 0.25  # epochs consumed by taking exactly len(loader) batches
    # loader parameters that were not varied before (drawn last): a subset of the utterance ids, data parameters
    # handed over separately from the loader parameters, normalisation statistics given by the caller
    n_ = sc["n"]
    sc["subset"] = sorted(rng.sample(range(n_), rng.randrange(1, n_ + 1))) if sc["kind"] != "bare" and n_ >= 2 and not sc.get("missing") and rng.random() < 0.2 else None
    sc["split_params"] = rng.random() < 0.3
    sc["given_stats"] = rng.random() < 0.4
    return sc


# ---------------------------------------------------------------------------------------
class Corpus:
    def __init__(self, sc):
        self.sc = sc
        self.dir = f"{ROOT}/data"
        r = __import__("random").Random(sc["salt"])
        names = []
        for i in range(sc["n"]):
            names.append(corpus.utt_name(r, i, sc["id_style"]))
        # the data set sorts ids; index = rank in sorted order
        order = sorted(range(sc["n"]), key=lambda i: names[i])
        self.utts = []
        for i in order:
            T = sc["lens"][i]
            R = sc["rlens"][i]
            self.utts.append(
                {
                    "id": names[i],
                    "feat": corpus.feat_tensor(i, T, sc["F"], sc["salt"]),
                    "ali": corpus.ali_tensor(i, T, sc["salt"]),
                    "ref": corpus.ref_tensor(i, R, T, sc["ref2d"], sc["salt"]),
                }
            )

    def apply_missing(self):
        """Drops the ali / ref files named in sc['missing'] and restricts self.utts to what a data
        set over the directory contains (the intersection of the sub-directories it counts)."""
        sc = self.sc
        self.all_utts = list(self.utts)
        miss = {"ali": set(), "ref": set()}
        names = [None] * sc["n"]
        for i, part in sc.get("missing") or []:
            miss[part].add(i)
        # self.utts is in sorted-name order; sc['missing'] indexes the generation order: map through ids
        import random as _r

        r = _r.Random(sc["salt"])
        gen_names = [corpus.utt_name(r, i, sc["id_style"]) for i in range(sc["n"])]
        miss_ids = {part: {gen_names[i] for i in idxs} for part, idxs in miss.items()}
        for u in self.all_utts:
            u["no_ali"] = u["id"] in miss_ids["ali"]
            u["no_ref"] = u["id"] in miss_ids["ref"]
        counts_ali = sc["with_ali"] and (sc["kind"] == "ctx" or not sc["suppress_alis"]) and any(not u["no_ali"] for u in self.all_utts)
        counts_ref = sc["with_ref"] and any(not u["no_ref"] for u in self.all_utts)
        self.utts = [u for u in self.all_utts if not (counts_ali and u["no_ali"]) and not (counts_ref and u["no_ref"])]

    def apply_subset(self):
        """params.subset_ids: the data set is restricted to these ids (the files of the others stay on disk)."""
        import random as _r

        sc = self.sc
        r = _r.Random(sc["salt"])
        gen_names = [corpus.utt_name(r, i, sc["id_style"]) for i in range(sc["n"])]
        self.subset_ids = sorted(gen_names[i] for i in sc["subset"])
        self.on_disk = list(self.utts)
        self.utts = [u for u in self.utts if u["id"] in set(self.subset_ids)]

    def stats(self):
        """Normalisation statistics handed to the loader (exact in float32)."""
        F = self.sc["F"]
        return torch.tensor([0.5 * (i - 1) for i in range(F)]), torch.tensor([[0.5, 2.0, 4.0][i % 3] for i in range(F)])

    def write(self):
        sc = self.sc
        if getattr(self, "on_disk", None) is not None:
            kept, self.utts = self.utts, self.on_disk
            try:
                self.on_disk = None
                return self.write()
            finally:
                self.utts, self.on_disk = kept, self.utts
        if sc["kind"] != "lang" and sc.get("missing"):
            utts = [dict(u, ali=None if u["no_ali"] else u["ali"], ref=None if u["no_ref"] else u["ref"]) for u in self.all_utts]
            corpus.write_spect_dir(self.dir, utts, prefix=sc["prefix"], suffix=sc["suffix"], with_ali=sc["with_ali"], with_ref=sc["with_ref"])
            return
        if sc["kind"] == "lang":
            import os

            os.makedirs(self.dir, exist_ok=True)
            for u in self.utts:
                torch.save(u["ref"], f"{self.dir}/{sc['prefix']}{u['id']}{sc['suffix']}")
        else:
            corpus.write_spect_dir(self.dir, self.utts, prefix=sc["prefix"], suffix=sc["suffix"], with_ali=sc["with_ali"], with_ref=sc["with_ref"])

    # expected items, through the independent reference pipeline
    def expected_ref(self, idx, tokens_only):
        sc = self.sc
        ref = self.utts[idx]["ref"]
        if tokens_only and ref.dim() == 2:
            ref = ref[:, 0]
        rows = ref.tolist()
        if ref.dim() == 2 or (sc["ref2d"] and not tokens_only):
            pre = [[sc["sos"], -1, -1]] if sc["sos"] is not None else []
            post = [[sc["eos"], -1, -1]] if sc["eos"] is not None else []
            shape = (-1, 3)
        else:
            pre = [sc["sos"]] if sc["sos"] is not None else []
            post = [sc["eos"]] if sc["eos"] is not None else []
            shape = (-1,)
        return torch.tensor(pre + rows + post, dtype=torch.long).reshape(*shape)

    def expected_feat(self, idx):
        sc = self.sc
        x = self.utts[idx]["feat"].double().numpy()
        if sc["do_mvn"]:
            if sc.get("given_stats"):
                m, sd_ = self.stats()
                x = corpus.ref_mvn(x, m.double().numpy(), sd_.double().numpy())
            else:
                x = corpus.ref_mvn(x)
        if sc["delta_order"]:
            x = corpus.ref_deltas(x, sc["delta_order"])
        return x


def make_loader(sc, corp, init_epoch):
    from pydrobert.torch import data

    common = dict(shuffle=sc["shuffle"], init_epoch=init_epoch, seed=sc["seed"])
    subset = list(getattr(corp, "subset_ids", None) or [])
    split = bool(sc.get("split_params"))
    stats = {}
    if sc.get("given_stats") and sc["kind"] in ("spect", "ctx"):
        stats["feat_mean"], stats["feat_std"] = corp.stats()
    if sc["kind"] == "spect":
        dl = dict(batch_size=sc["batch_size"], drop_last=sc["drop_last"], num_length_buckets=sc["num_length_buckets"], size_batch_by_length=sc["size_batch_by_length"])
        dp = dict(sos=sc["sos"], eos=sc["eos"], delta_order=sc["delta_order"], do_mvn=sc["do_mvn"], subset_ids=subset)
        # the data parameters either ride along in the loader parameters or are handed over separately
        params, data_params = (data.DynamicLengthDataLoaderParams(**dl), data.SpectDataParams(**dp)) if split else (data.SpectDataLoaderParams(**dl, **dp), None)
        return data.SpectDataLoader(
            corp.dir, params, data_params, batch_first=sc["batch_first"], sort_batch=sc["sort_batch"], on_uneven_distributed="".join(list(sc["mode"])),
            file_prefix=sc["prefix"], file_suffix=sc["suffix"], suppress_alis=sc["suppress_alis"], suppress_uttids=sc["suppress_uttids"],
            tokens_only=sc["tokens_only"], warn_on_missing=False, **stats, **common,
        )
    if sc["kind"] == "lang":
        dl = dict(batch_size=sc["batch_size"], drop_last=sc["drop_last"], num_length_buckets=sc["num_length_buckets"], size_batch_by_length=sc["size_batch_by_length"])
        dp = dict(sos=sc["sos"], eos=sc["eos"], subset_ids=subset)
        params, data_params = (data.DynamicLengthDataLoaderParams(**dl), data.LangDataParams(**dp)) if split else (data.LangDataLoaderParams(**dl, **dp), None)
        return data.LangDataLoader(
            corp.dir, params, data_params, batch_first=sc["batch_first"], sort_batch=sc["sort_batch"], on_uneven_distributed="".join(list(sc["mode"])),
            file_prefix=sc["prefix"], file_suffix=sc["suffix"], suppress_uttids=sc["suppress_uttids"], tokens_only=sc["tokens_only"], **common,
        )
    if sc["kind"] == "ctx":
        params = data.ContextWindowDataLoaderParams(
            batch_size=sc["batch_size"], drop_last=sc["drop_last"], context_left=sc["left"], context_right=sc["right"], reverse=sc["reverse"],
            delta_order=sc["delta_order"], do_mvn=sc["do_mvn"], subset_ids=subset,
        )
        return data.ContextWindowDataLoader(
            corp.dir, params, file_prefix=sc["prefix"], file_suffix=sc["suffix"], suppress_uttids=sc["suppress_uttids"], warn_on_missing=False, **stats, **common
        )
    raise HarnessError(sc["kind"])


class Bare:
    """A bare BucketBatchSampler over an epoch sampler, with arbitrary maps."""

    def __init__(self, sc, init_epoch):
        from pydrobert.torch import data

        n = sc["n"]
        mode = "".join(list("drop" if sc["drop_last"] else sc["mode"]))  # an equal string, not the literal's object
        if sc["shuffle"]:
            self.sampler = data.EpochRandomSampler(range(n), init_epoch, sc["seed"], mode)
        else:
            self.sampler = data.EpochSequentialSampler(range(n), init_epoch, mode)
        # any hashable, mutually orderable ids: ints, strings, negative ints (hash(-1) == hash(-2) in
        # CPython), tuples
        name = {"int": (lambda b: b), "str": (lambda b: f"b{b}"), "neg": (lambda b: -1 - b), "tuple": (lambda b: (-1 - b, "x"))}[sc["bucket_names"]]
        self.idx2bucket = {i: name(b) for i, b in enumerate(sc["idx2bucket"])}
        self.bucket2size = {name(b): s for b, s in enumerate(sc["bucket2size"])}
        self.batch_sampler = data.BucketBatchSampler(self.sampler, self.idx2bucket, self.bucket2size, sc["drop_last"])

    @property
    def epoch(self):
        return self.sampler.epoch

    @epoch.setter
    def epoch(self, v):
        self.sampler.epoch = v


# ---------------------------------------------------------------------------------------
def tensor_digest(obj, h):
    if torch.is_tensor(obj):
        h.update(str(tuple(obj.shape)).encode())
        h.update(str(obj.dtype).encode())
        h.update(obj.contiguous().numpy().tobytes())
    elif isinstance(obj, (tuple, list)):
        for o in obj:
            tensor_digest(o, h)
    else:
        h.update(repr(obj).encode())


def row(t, n, size, batch_first):
    return t[n, :size] if batch_first else t[:size, n]


def pad_cells(t, n, size, batch_first):
    return t[n, size:] if batch_first else t[size:, n]


def check_batching_rules(res, sc, order, batches, idx2bucket, bucket2size, drop, ctx):
    """The statement's rules on index batches.  order = this rank's sampler order."""
    pos = {idx: k for k, idx in enumerate(order)}
    per_bucket = {}
    seen = set()
    for bi, b in enumerate(batches):
        if not b:
            res.violate("batch.empty", f"{ctx}: empty batch")
            return False
        bks = {idx2bucket[i] for i in b}
        if len(bks) != 1:
            res.violate("batch.mixed-buckets", f"{ctx}: batch {b} mixes buckets {sorted(map(str, bks))}")
            return False
        bk = next(iter(bks))
        if len(b) > bucket2size[bk]:
            res.violate("batch.too-large", f"{ctx}: batch of {len(b)} in a bucket of size {bucket2size[bk]}")
            return False
        for i in b:
            if i not in pos:
                res.violate("batch.foreign-index", f"{ctx}: index {i} was not produced by the sampler this epoch")
                return False
            if i in seen:
                res.violate("batch.duplicate", f"{ctx}: index {i} delivered twice")
                return False
            seen.add(i)
        per_bucket.setdefault(bk, []).append(b)
    for bk in {idx2bucket[i] for i in order}:
        want = [i for i in order if idx2bucket[i] == bk]
        bs = per_bucket.get(bk, [])
        got = [i for b in bs for i in b]
        size = bucket2size[bk]
        if got != want[: len(got)]:
            res.violate("batch.order", f"{ctx}: bucket {bk}: batches {bs} are not the sampler order {want} cut into batches")
            return False
        short = [k for k, b in enumerate(bs) if len(b) < size]
        if short and (drop or short != [len(bs) - 1]):
            res.violate("batch.short", f"{ctx}: bucket {bk}: short batch not at the tail or not allowed (drop={drop}): {bs}")
            return False
        missing = len(want) - len(got)
        if drop:
            if missing != len(want) % size:
                res.violate("batch.dropped-too-much", f"{ctx}: bucket {bk}: {missing} indices missing, only the incomplete batch ({len(want) % size}) may be dropped", drop=True)
                return False
        elif missing:
            res.violate("batch.lost", f"{ctx}: bucket {bk}: indices {want[len(got):]} were never delivered", drop=False)
            return False
    return True


def check_length_classes(res, sc, loader, lengths):
    """Bucket purity part 2: the loader's bucket map is a partition into length classes."""
    from pydrobert.torch import data

    bs = loader.batch_sampler
    if sc["num_length_buckets"] <= 1:
        if isinstance(bs, data.BucketBatchSampler):
            res.violate("bucket.unexpected", "bucket sampler with num_length_buckets=1")
            return False
        return True
    if not isinstance(bs, data.BucketBatchSampler):
        res.violate("bucket.absent", f"num_length_buckets={sc['num_length_buckets']} but no bucket sampler")
        return False
    i2b, b2s = bs.idx2bucket, bs.bucket2size
    n = len(lengths)
    if sorted(i2b) != list(range(n)):
        res.violate("bucket.map-domain", "idx2bucket does not cover the data set")
        return False
    for i in range(n):
        for j in range(n):
            if lengths[i] < lengths[j] and i2b[i] > i2b[j] or (lengths[i] == lengths[j] and i2b[i] != i2b[j]):
                res.violate("bucket.not-length-classes", f"utterances of lengths {lengths[i]} and {lengths[j]} are in buckets {i2b[i]} and {i2b[j]}")
                return False
    nb = len(set(i2b.values()))
    if nb > sc["num_length_buckets"]:
        res.violate("bucket.too-many", f"{nb} buckets for num_length_buckets={sc['num_length_buckets']}")
        return False
    if nb >= 2:
        res.bump("probe.two_or_more_buckets")
    Y = max(lengths) if lengths else 0
    for b in set(i2b.values()):
        y = max(lengths[i] for i in range(n) if i2b[i] == b)
        want = sc["batch_size"]
        if sc["size_batch_by_length"]:
            if y == 0:
                continue
            want = (Y * sc["batch_size"]) // y
        if b2s[b] != want:
            res.violate("bucket.size", f"bucket {b} (longest {y}, corpus longest {Y}) has batch size {b2s[b]}, documented {want}", dynamic=sc["size_batch_by_length"])
            return False
    return True


def decode_batch(res, sc, corp, batch, candidates, ctx):
    """Maps the rows of a collated batch back to data-set indices and checks lossless
    collation.  candidates = indices the sampler produced this epoch (not yet delivered).
    Returns list of indices or None."""
    import pydrobert.torch.config as config

    kind = sc["kind"]
    PAD = config.INDEX_PAD_VALUE
    tol = dict(rtol=1e-4, atol=1e-4)
    bf = sc["batch_first"]
    ids = None
    if kind == "spect":
        batch = list(batch)
        feats = batch.pop(0)
        alis = batch.pop(0) if not sc["suppress_alis"] else None
        refs, feat_sizes, ref_sizes = batch[0], batch[1], batch[2]
        if not sc["suppress_uttids"]:
            ids = batch[3]
        N = int(feat_sizes.numel())
        out = []
        free = list(candidates)
        has_ali = sc["with_ali"] and not sc["suppress_alis"]
        if (alis is not None) != has_ali:
            res.violate("collate.alis-presence", f"{ctx}: alis {'present' if alis is not None else 'absent'} unexpectedly")
            return None
        if (refs is not None) != sc["with_ref"]:
            res.violate("collate.refs-presence", f"{ctx}: refs presence wrong")
            return None
        for n in range(N):
            T = int(feat_sizes[n])
            x = row(feats, n, T, bf).double().numpy()
            found = None
            for i in free:
                if ids is not None and corp.utts[i]["id"] != ids[n]:
                    continue
                e = corp.expected_feat(i)
                if e.shape == x.shape and np.allclose(x, e, **tol):
                    found = i
                    break
            if found is None:
                res.violate("collate.feat-row", f"{ctx}: row {n} cut to its size {T} matches no undelivered utterance" + (f" (id {ids[n]})" if ids else ""), part="feat")
                return None
            free.remove(found)
            out.append(found)
            if pad_cells(feats, n, T, bf).ne(0).any():
                res.violate("collate.feat-padding", f"{ctx}: row {n} has non-zero padding", part="feat")
                return None
            if alis is not None:
                if not torch.equal(row(alis, n, T, bf), corp.utts[found]["ali"]):
                    res.violate("collate.ali-row", f"{ctx}: row {n} alignment differs from the stored one", part="ali")
                    return None
                if pad_cells(alis, n, T, bf).ne(PAD).any():
                    res.violate("collate.ali-padding", f"{ctx}: row {n} alignment padding is not INDEX_PAD_VALUE", part="ali")
                    return None
            if refs is not None:
                R = int(ref_sizes[n])
                want = corp.expected_ref(found, sc["tokens_only"])
                if not torch.equal(row(refs, n, R, bf), want):
                    res.violate("collate.ref-row", f"{ctx}: row {n} reference {row(refs, n, R, bf).tolist()} != stored (with sos/eos) {want.tolist()}", part="ref")
                    return None
                if pad_cells(refs, n, R, bf).ne(PAD).any():
                    res.violate("collate.ref-padding", f"{ctx}: row {n} reference padding is not INDEX_PAD_VALUE", part="ref")
                    return None
        for name, t in (("feats", feats), ("alis", alis), ("refs", refs)):
            if t is not None and t.shape[0 if bf else 1] != N:
                res.violate("collate.layout", f"{ctx}: {name} has shape {tuple(t.shape)} for {N} rows, batch_first={bf}")
                return None
        return out
    if kind == "lang":
        refs, ref_sizes = batch[0], batch[1]
        if not sc["suppress_uttids"]:
            ids = batch[2]
        N = int(ref_sizes.numel())
        out = []
        free = list(candidates)
        for n in range(N):
            R = int(ref_sizes[n])
            got = row(refs, n, R, bf)
            found = None
            for i in free:
                if ids is not None and corp.utts[i]["id"] != ids[n]:
                    continue
                want = corp.expected_ref(i, sc["tokens_only"])
                if want.shape == got.shape and torch.equal(want, got):
                    found = i
                    break
            if found is None:
                res.violate("collate.ref-row", f"{ctx}: row {n} {got.tolist()} matches no undelivered transcript" + (f" (id {ids[n]})" if ids else ""), part="ref")
                return None
            free.remove(found)
            out.append(found)
            if pad_cells(refs, n, R, bf).ne(PAD).any():
                res.violate("collate.ref-padding", f"{ctx}: row {n} padding is not INDEX_PAD_VALUE", part="ref")
                return None
        if refs.shape[0 if bf else 1] != N:
            res.violate("collate.layout", f"{ctx}: refs has shape {tuple(refs.shape)} for {N} rows, batch_first={bf}")
            return None
        return out
    if kind == "ctx":
        windows, alis = batch[0], batch[1]
        has_ids = not sc["suppress_uttids"]
        sizes = [int(x) for x in batch[2]] if has_ids else None
        ids = batch[3] if has_ids else None
        has_ali = sc["with_ali"]
        if (alis is not None) != has_ali:
            res.violate("collate.alis-presence", f"{ctx}: alis presence wrong")
            return None
        out = []
        free = list(candidates)
        off = 0
        total = windows.shape[0]
        L, Rr = sc["left"], sc["right"]
        k = 0
        while off < total:
            found = None
            for i in free:
                if ids is not None and (k >= len(ids) or corp.utts[i]["id"] != ids[k]):
                    continue
                e = corp.expected_feat(i)
                T = e.shape[0]
                if sizes is not None and sizes[k] != T:
                    continue
                if off + T > total:
                    continue
                idxs = np.clip(np.arange(T)[:, None] + np.arange(-L, Rr + 1)[None, :], 0, T - 1)
                win = e[idxs]
                if sc["reverse"]:
                    win = win[:, ::-1]
                got = windows[off : off + T].double().numpy()
                if got.shape == win.shape and np.allclose(got, win, **tol):
                    if alis is not None and not torch.equal(alis[off : off + T], corp.utts[i]["ali"]):
                        res.violate("collate.ali-row", f"{ctx}: alignment ids of utterance {corp.utts[i]['id']} do not ride alongside its windows", part="ali")
                        return None
                    found = (i, T)
                    break
            if found is None:
                res.violate("collate.window", f"{ctx}: windows from offset {off} match no undelivered utterance's edge-replicated context windows", part="window")
                return None
            free.remove(found[0])
            out.append(found[0])
            off += found[1]
            k += 1
        if ids is not None and k != len(ids):
            res.violate("collate.ids", f"{ctx}: {len(ids)} ids for {k} utterances")
            return None
        return out
    raise HarnessError(kind)


# ---------------------------------------------------------------------------------------
def execute(sc):
    res = RunResult()
    sd = SimDist()
    fs = SimFS()
    W = sc["W"]
    kind = sc["kind"]
    corp = Corpus(sc)
    if kind != "lang" and sc.get("missing"):
        corp.apply_missing()
        res.bump("fault.files_missing_for_some_utterances")
    if sc.get("subset") and kind != "bare":
        corp.apply_subset()
        res.bump("probe.subset_of_the_directory")
    n = len(corp.utts)
    repro = {}
    with warnings.catch_warnings():
        warnings.simplefilter("ignore")
        with patched(fs), sd.patched():
            corp.write()
            if kind == "ctx":
                eff_mode = "ignore"
            elif sc["drop_last"]:
                eff_mode = "drop"
            else:
                eff_mode = sc["mode"]
            should_raise = eff_mode == "raise" and n % W != 0 and W > 1
            lengths = [u["feat"].shape[0] for u in corp.utts] if kind != "lang" else [corp.expected_ref(i, sc["tokens_only"]).shape[0] for i in range(n)]

            def build(r, init_epoch):
                with sd.node(r if W > 1 else None, W if W > 1 else None):
                    torch.manual_seed(sc["torch_seed"])
                    if kind == "bare":
                        return Bare(sc, init_epoch)
                    return make_loader(sc, corp, init_epoch)

            loaders = []
            for r in range(W):
                try:
                    ld = build(r, sc["init_epoch"][r])
                except Exception as e:  # noqa
                    if should_raise:  # the mandated refusal, whatever its type and wording
                        res.bump("probe.raise_on_uneven")
                        res.nontrivial = True
                        return res
                    res.violate("construct.raised", f"{kind} loader over {n} utterances (buckets={sc['num_length_buckets']}, suppress_uttids={sc['suppress_uttids']}, "
                                f"tokens_only={sc['tokens_only']}) raised {type(e).__name__}: {e}", exc=type(e).__name__, kind=kind, empty=(n == 0),
                                suppress_uttids=sc["suppress_uttids"])
                    return res
                if should_raise:
                    res.violate("construct.no-raise", f"strict mode accepted {n} utterances for {W} ranks")
                    return res
                loaders.append(ld)
                if kind in ("spect", "lang") and not check_length_classes(res, sc, ld, lengths):
                    return res
            seed0 = loaders[0].batch_sampler.sampler.base_seed if sc["shuffle"] else None
            exact_len = bool(sc.get("exact_len"))
            if exact_len:
                res.bump("probe.exact_length_consumer")
            for op in sc["ops"]:
                if op[0] == "perturb":
                    perturb_global_rngs(op[1])
                    res.bump("fault.rng_perturbed")
                    continue
                r = op[1] % W
                if op[0] == "restart":
                    e = loaders[r].epoch
                    sc2 = dict(sc, seed=seed0)
                    with sd.node(r if W > 1 else None, W if W > 1 else None):
                        loaders[r] = Bare(sc2, e) if kind == "bare" else make_loader(sc2, corp, e)
                    res.bump("fault.rank_restart")
                    continue
                if op[0] == "jump":
                    loaders[r].epoch = op[2]
                    res.bump("fault.epoch_jump")
                    continue
                if op[0] == "abandon":
                    with sd.node(r if W > 1 else None, W if W > 1 else None):
                        try:
                            it = iter(loaders[r].batch_sampler if kind == "bare" else loaders[r])
                            for _ in range(op[2]):
                                next(it)
                        except StopIteration:
                            pass
                        except Exception as err:  # noqa
                            import traceback

                            if not any("pydrobert" in f.filename for f in traceback.extract_tb(err.__traceback__)):
                                raise
                            res.violate("deliver.raised", f"{kind}: a partially consumed epoch raised {type(err).__name__}: {err}", exc=type(err).__name__, kind=kind)
                            return res
                        del it
                    res.bump("fault.iterator_abandoned")
                    res.log.add("abandon", r, op[2])
                    continue
                # ---- one epoch on rank r
                ld = loaders[r]
                with sd.node(r if W > 1 else None, W if W > 1 else None):
                    e = ld.epoch
                    ctx = f"{kind} rank {r}/{W} epoch {e}"
                    order = [int(i) for i in ld.batch_sampler.sampler.get_samples_for_epoch(e)]
                    if kind == "bare":
                        try:
                            batches = [list(map(int, b)) for b in ld.batch_sampler]
                        except Exception as err:  # noqa
                            res.violate("deliver.raised", f"{ctx}: BucketBatchSampler raised {type(err).__name__}: {err}", exc=type(err).__name__, kind=kind)
                            return res
                        idx_batches = batches
                        digest = hashlib.sha256(repr(batches).encode()).hexdigest()[:16]
                    else:
                        try:
                            L = len(ld)
                            got = []
                            # (some scenarios: a consumer that takes exactly len(loader) batches and never asks for more)
                            for b in (itertools.islice(ld, L) if exact_len and L else ld):
                                got.append(b)
                                if sc.get("len_mid_epoch") and len(got) == 1:
                                    len(ld)  # asking mid-epoch must not disturb the epoch in progress
                        except Exception as err:  # noqa
                            import traceback

                            tb = traceback.extract_tb(err.__traceback__)
                            where = next((f.name for f in reversed(tb) if "pydrobert" in f.filename), None)
                            if where is None:
                                raise
                            res.violate("deliver.raised", f"{ctx}: delivering the epoch raised {type(err).__name__} in {where}: {err}", exc=type(err).__name__, where=where, kind=kind)
                            return res
                        if L != len(got):
                            res.violate("len.mismatch", f"{ctx}: len(loader) = {L} but {len(got)} batches were yielded", kind=kind, W=W)
                            return res
                        h = hashlib.sha256()
                        tensor_digest(got, h)
                        digest = h.hexdigest()[:16]
                        idx_batches = []
                        free = list(order)
                        for b in got:
                            try:
                                dec = decode_batch(res, sc, corp, b, free, ctx)
                            except (IndexError, RuntimeError, ValueError, TypeError, KeyError) as err:
                                # the batch cannot even be cut back to its reported sizes in the documented layout
                                shapes = [tuple(t.shape) if torch.is_tensor(t) else type(t).__name__ for t in (b if isinstance(b, (tuple, list)) else [b])]
                                res.violate("collate.layout", f"{ctx}: the batch (shapes {shapes}, batch_first={sc['batch_first']}) does not have the documented layout: {type(err).__name__}: {err}", part="layout")
                                return res
                            if dec is None:
                                return res
                            for i in dec:
                                free.remove(i)
                            idx_batches.append(dec)
                    if ld.epoch != e + 1 and not (len(order) == 0 and ld.epoch in (e, e + 1)):
                        res.violate("epoch.advance", f"{ctx}: epoch is {ld.epoch} after one pass")
                        return res
                    if len(order) == 0:
                        ld.epoch = e + 1
                res.steps += 1
                res.log.add("epoch", r, e, idx_batches, digest)
                # rules
                bs = ld.batch_sampler
                from pydrobert.torch import data as _data

                if isinstance(bs, _data.BucketBatchSampler):
                    i2b, b2s = bs.idx2bucket, bs.bucket2size
                    res.bump("probe.bucket_epochs")
                else:
                    i2b, b2s = {i: 0 for i in range(n)}, {0: sc["batch_size"]}
                rule_order = idx_batches
                if sc["sort_batch"] and kind in ("spect", "lang"):
                    # rows were sorted by descending length inside the batch: judge membership,
                    # and the sortedness itself
                    pos = {i: k for k, i in enumerate(order)}
                    for b in idx_batches:
                        ls = [lengths[i] for i in b]
                        if ls != sorted(ls, reverse=True):
                            res.violate("batch.not-sorted", f"{ctx}: sort_batch set but row lengths are {ls}")
                            return res
                    rule_order = [sorted(b, key=lambda i: pos.get(i, -1)) for b in idx_batches]
                if not check_batching_rules(res, sc, order, rule_order, i2b, b2s, sc["drop_last"], ctx):
                    return res
                if any(len(b) < b2s[i2b[b[0]]] for b in idx_batches):
                    res.bump("probe.short_tail_batch")
                key = (r, e)
                if key in repro and repro[key] != digest:
                    res.violate("repro.differs", f"{ctx}: batches differ from an earlier delivery of the same (seed, epoch)")
                    return res
                if key in repro:
                    res.bump("probe.epoch_redelivered")
                repro[key] = digest
                res.states.add(str((kind, n % max(W, 1), sc["drop_last"], sc["num_length_buckets"] > 1, len(idx_batches))))
            # exactly-once across ranks: the loaders' samplers must split every delivered epoch
            # exactly (the per-rank delivery against the rank's own share is checked above)
            if W > 1:
                for e in sorted({e for (_, e) in repro}):
                    shares = []
                    for r in range(W):
                        with sd.node(r, W):
                            shares.append([int(i) for i in loaders[r].batch_sampler.sampler.get_samples_for_epoch(e)])
                    flat = [i for sh in shares for i in sh]
                    if eff_mode == "ignore":
                        if any(sorted(sh) != list(range(n)) for sh in shares):
                            res.violate("ranks.ignore", f"epoch {e}: with on_uneven_distributed='ignore' every rank must see all {n} utterances; shares {shares}", mode=eff_mode)
                            return res
                        continue
                    if len(set(flat)) != len(flat):
                        res.violate("ranks.overlap", f"epoch {e}: {kind} loaders of different ranks deliver the same utterance: shares {shares} (mode {eff_mode})", mode=eff_mode)
                        return res
                    want_n = n - n % W if eff_mode == "drop" else n
                    if len(flat) != want_n or (eff_mode == "drop" and len({len(sh) for sh in shares}) > 1):
                        res.violate("ranks.cover", f"epoch {e}: ranks together are given {len(flat)} of {n} utterances (mode {eff_mode}, W={W}): shares {shares}", mode=eff_mode)
                        return res
                    res.bump("probe.cross_rank_split_checked")
    res.nontrivial = n >= 2 and res.steps >= 1
    return res


def shrink_candidates(sc):
    for i in range(len(sc["ops"])):
        c = copy.deepcopy(sc)
        del c["ops"][i]
        if any(o[0] == "epoch" for o in c["ops"]):
            yield c
    n = sc["n"]
    for m in (0, 1, 2, 3, n // 2, n - 1):
        if 0 <= m < n:
            c = copy.deepcopy(sc)
            c["n"] = m
            c["lens"] = c["lens"][:m]
            c["rlens"] = c["rlens"][:m]
            if "idx2bucket" in c:
                c["idx2bucket"] = c["idx2bucket"][:m]
            yield c
    if sc["W"] > 1:
        c = copy.deepcopy(sc)
        c["W"] -= 1
        c["init_epoch"] = c["init_epoch"][: c["W"]]
        yield c
    simple = {
        "num_length_buckets": 1, "size_batch_by_length": False, "drop_last": False, "shuffle": False, "sort_batch": False, "batch_first": True,
        "suppress_alis": True, "suppress_uttids": False, "tokens_only": True, "sos": None, "eos": None, "delta_order": 0, "do_mvn": False,
        "with_ali": False, "ref2d": False, "prefix": "", "suffix": ".pt", "left": 0, "right": 0, "reverse": False, "id_style": 0, "F": 1, "mode": "uneven",
        "batch_size": 1,
    }
    for k, v in simple.items():
        if sc.get(k) != v:
            c = copy.deepcopy(sc)
            c[k] = v
            yield c
    if any(sc["init_epoch"]):
        c = copy.deepcopy(sc)
        c["init_epoch"] = [0] * sc["W"]
        yield c
    for i in range(n):
        if sc["lens"][i] != 1:
            c = copy.deepcopy(sc)
            c["lens"][i] = 1
            yield c
        if sc["rlens"][i] > 1:
            c = copy.deepcopy(sc)
            c["rlens"][i] = 1
            yield c


def sample_repr(sc):
    return {k: v for k, v in sc.items() if k not in ("salt", "torch_seed")}


GROUP_KEYS = ("oracle", "exc", "part", "empty", "drop", "dynamic", "where", "suppress_uttids", "mode")
BUDGET = {"quick": 20000, "thorough": 80000}
WALL_CAP = {"quick": 300, "thorough": 3000}
RULE = (
    "run i derives a job from sha256(VERIF_SEED/C14/i): loader kind (SpectDataLoader / LangDataLoader / ContextWindowDataLoader over a generated "
    "data directory in SimFS, or a bare BucketBatchSampler with arbitrary maps), 0..24 utterances with lengths drawn to create ties and outliers, "
    "batch size, bucket count, dynamic sizing, drop_last, shuffle, sort_batch, batch_first, suppress_*, tokens_only, sos/eos, deltas, mvn, W in 1..3 "
    "ranks with an uneven mode, and a 3..7-step interleaving of EPOCH / ABANDON (k batches, then the iterator is dropped) / RESTART / JUMP / PERTURB_RNG per rank (len() also asked mid-epoch). One evaluation = one job. Non-trivial = "
    ">= 2 utterances and >= 1 epoch delivered (or a mandated raise); distinct = scenario hash."
)
STATE_MEASURE = "distinct (kind, N mod W, drop_last, bucketed, number of batches) classes delivered"
COMPONENTS = {
    "real": ["pydrobert.torch._dataloaders (samplers, BucketBatchSampler, loaders, collation)", "pydrobert.torch._datasets (SpectDataSet, LangDataSet, ContextWindowDataSet, transforms)",
             "torch.utils.data.DataLoader with num_workers=0", "torch.save/torch.load"],
    "stub": ["file system: SimFS (no faults injected here)", "torch.distributed rank/world-size queries: SimDist"],
    "reference_model": ["props/corpus.py::ref_mvn, ref_deltas (float64 numpy)", "check_batching_rules / check_length_classes (from the property statement)"],
}
ASSUMPTIONS = [
    "num_workers=0 (torch's worker machinery is not simulated)",
    "rows are mapped back to utterances by content (features / token values encode the utterance) when ids are suppressed",
    "the sampler's per-rank order for an epoch is taken from the sampler's public get_samples_for_epoch (its correctness is C13)",
    "dynamic batch sizes are not judged for buckets whose longest member has length 0",
    "transforms compared with rtol=atol=1e-4 against a float64 reference",
]
