"""Regenerates seeded/README.md from the meta.json files."""
import glob
import json
import os

HERE = os.path.dirname(os.path.abspath(__file__))
rows, per_round = [], {}
ROUND = {"first": 1, "second": 2, "third": 3, "fourth": 4, "fifth": 5, "sixth": 6, "eighth": 8, "tenth": 10, "eleventh": 11, "twelfth": 12}
for d in sorted(glob.glob(os.path.join(HERE, "seeded", "C*-*", "meta.json"))):
    m = json.load(open(d))
    name = os.path.basename(os.path.dirname(d))
    src = m.get("source", "")
    rnd = next((v for k, v in ROUND.items() if f"({k} round" in src), 1)
    arrived = bool(m.get("caught_before_strengthening"))
    a, b = per_round.get(rnd, (0, 0))
    per_round[rnd] = (a + arrived, b + 1)
    rows.append(f"| {name} | {m['property']} | {m['needs']} | {m['caught_by']} | {'yes' if arrived else 'no: ' + m.get('strengthening', '')} |")
total = sum(b for _, b in per_round.values())
caught = sum(a for a, _ in per_round.values())
now = sum(1 for r in rows if "NOT CAUGHT" not in r)
notes = {5: ", which asked for changes a random small-scenario harness would miss", 8: ", which asked for changes that show only under a particular history or schedule", 10: ", which asked for changes confined to an easily overlooked corner of the input or parameter space", 11: ", which asked for changes in rarely exercised parts of the public interface", 12: ", five properties, free choice of area"}
text = f"""# Seeded changes

Independently written changes to sdrobert/pydrobert-pytorch that break one property each while the existing tests keep passing. Each was written by a sub-agent that saw only the property text (later rounds: plus the earlier ideas to avoid and a focus hint) and its own scratch worktree; each was confirmed here (existing tests pass with the change, the demonstration fails with it and passes without it: `verification.txt`, written by `tools_seed_verify.sh`) before being kept. None is ever committed to /repo. (Round 7 was the reverse exercise: property-preserving changes, see `../benign/`.)

To run a check against one: `./tools_seed_try.sh <dir name> [check ids]` (applies the patch in a scratch worktree of /repo and runs the check with VERIF_REPO pointing there; `--in-place` applies it to /repo itself and undoes it afterwards). `./tools_seed_all.sh` runs all of them and writes `DETECTION.md`.

| change | property | what it needs to manifest | caught by | caught before strengthening |
|---|---|---|---|---|
""" + "\n".join(rows) + f"""

{caught} of {total} were caught by the checks as they stood when the change arrived ({'; '.join(f'round {r}{notes.get(r, "")}: {a} of {b}' for r, (a, b) in sorted(per_round.items()))}). {now} of {total} are caught now; the exception targets a clause that is a pure function and is explicitly not claimed. Most misses were workload gaps: the violating behaviour was judged wrong as soon as the generator produced the triggering input or history. The others were faults of the machinery: twice (round 6 and round 8, both C16) the violation was reached but reported as a KNOWN-FINDING because the known finding's signature was too coarse; once (round 8, C13) a relaxation made for a property-preserving change let a property-breaking sibling through; once (round 8, C10) a violation that depends on state carried from one scenario to the next in the same process could not be replayed and ended the check with exit 2. `DESIGN.md` section 12 has the details and what was changed.
"""
open(os.path.join(HERE, "seeded", "README.md"), "w").write(text)
print(caught, total, now)
