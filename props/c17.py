"""C17: command-line conversions invert each other and ignore worker count.

Each scenario is a small corpus plus a pipeline of console commands.  The pipeline is run
on a real scratch directory under several execution configurations (workers, chunk size,
choice tape, queue depth): the first is always the serial one (--num-workers 0); under
every other one the worker pool is a SimPool whose schedule the tape decides.  The
pipeline's own oracle (inverse pair, printed figure, ...) is evaluated on the serial run,
and every other run must reproduce the serial run's files, printed text and exit status.
"""
import copy
import os
import random

import torch

from simkit.core import HarnessError, RunResult, Tape, make_tape, short_hash
from simkit.simpool import PoolSim
from . import cmdsim
from .cmdsim import Scratch, run_command, snapshot, diff_snapshots, SimConfig
from . import pipelines as P

ID = "C17"
LEVEL = {"quick": "exploration", "thorough": "exploration"}
PIPELINES = P.PIPELINES
ONLY = None  # restrict generation (used by C10, which shares this machinery)


def gen_configs(rng, n_items, pooled=True):
    cfgs = [[0, 1, [], 4]]
    if not pooled:
        return cfgs
    k = rng.choice([2, 2, 3])
    for _ in range(k):
        w = rng.choice([1, 2, 2, 3, 5])
        c = rng.choice([1, 1, 2, 3, 1000])
        cfgs.append([w, c, make_tape(rng, 40 + 12 * n_items), rng.choice([1, 2, 4, 8])])
    return cfgs


def generate(rng, tier, index, only=None):
    names = only or ONLY or [n for n in PIPELINES if n != "chunk"]
    weights = [PIPELINES[n].WEIGHT for n in names]
    name = rng.choices(names, weights)[0]
    pl = PIPELINES[name]
    sc = {"pipeline": name, "listing_seed": rng.randrange(1 << 20)}
    sc.update(P.gen_naming(rng))
    sc.update(pl.gen(rng, sc))
    sc["configs"] = gen_configs(rng, pl.size(sc), pl.POOLED)
    if sc.get("huge"):
        sc["configs"] = sc["configs"][:2]
        sc["configs"][1][2] = sc["configs"][1][2] + [0] * 0
    return sc


def execute(sc):
    res = RunResult()
    pl = PIPELINES[sc["pipeline"]]
    base = None
    counters = {}
    tag = short_hash(sc)
    # warm-up round: the same pipeline, serially, on the same paths, with one utterance fewer.
    # Anything a command remembers between invocations in one process is then stale.
    if pl.size(sc) >= 1 and sc.get("warmup", True):
        warm = copy.deepcopy(sc)
        warm["utts"] = warm["utts"][:-1]
        sim = PoolSim(Tape([]), 4)
        with Scratch(tag) as s:
            with sim.patched(), cmdsim.permuted_listings(s.path, sc["listing_seed"] * 31 + 17, counters):
                random.seed(12345)
                torch.manual_seed(12345)
                try:
                    pl.run(warm, s, SimConfig(0, 1, [], 4), RunResult())
                except HarnessError:
                    raise
                except Exception:  # noqa: the warm-up is not judged
                    pass
        res.bump("fault.stale_state_round")
    for i, (w, c, tape, depth) in enumerate(sc["configs"]):
        cfg = SimConfig(w, c, tape, depth)
        n = pl.size(sc)
        sim = PoolSim(Tape(tape), depth, event_budget=400 + 60 * n * (len(pl.commands_hint) if hasattr(pl, "commands_hint") else 3))
        with Scratch(tag) as s:
            with sim.patched(), cmdsim.permuted_listings(s.path, sc["listing_seed"] * 31 + i, counters):
                random.seed(12345)
                torch.manual_seed(12345)
                try:
                    out = pl.run(sc, s, cfg, res)
                except HarnessError as e:
                    if "event budget" not in str(e):
                        raise
                    # bounded liveness: a pooled command must finish within c*T + c0 scheduler events
                    res.violate("liveness.pool", f"{sc['pipeline']}: with workers={w} chunk={c} the command did not terminate within {sim.event_budget} pool events", pipeline=sc["pipeline"])
                    return res
            st = sim.stats
            res.steps += st.events
            res.bump("pool_events", st.events)
            res.bump("pools_created", st.pools)
            if st.max_busy >= 2:
                res.bump("probe.two_workers_busy")
            if st.max_lag >= 2:
                res.bump("probe.consumer_lagged_2_chunks")
            if st.out_of_order:
                res.bump("probe.out_of_order_delivery")
            if st.input_errors:
                res.bump("probe.input_iterable_failed")
            if st.task_errors:
                res.bump("probe.task_failed_in_worker")
            if sim.dataloaders:
                res.bump("dataloader_stub_used", sim.dataloaders)
            for order in st.delivery:
                if len(order) > 1:
                    res.states.add(f"{sc['pipeline']}:{len(order)}:" + ",".join(map(str, order)))
            res.log.add("config", i, w, c, depth, "status", out["status"], "events", st.events)
            if res.violations:
                return res
            if i == 0:
                base = out
                pl.oracle(sc, s, out, res)
                if res.violations:
                    return res
            else:
                res.bump("fault.schedule_variation")
                if out["status"] != base["status"]:
                    res.violate("workers.status", f"{sc['pipeline']}: exit status / exception type {out['status']} with workers={w} chunk={c}, {base['status']} serially",
                                pipeline=sc["pipeline"])
                    return res
                # a failing command leaves whatever the schedule let it write: only the exception type is an output
                ok = all(st == ("rc", 0) for st in base["status"])
                d = diff_snapshots(base["snap"], out["snap"]) if ok else None
                if d is not None:
                    res.violate("workers.files", f"{sc['pipeline']}: output with workers={w} chunk={c} differs from the serial run: {d}", pipeline=sc["pipeline"])
                    return res
                if out.get("printed") != base.get("printed"):
                    res.violate("workers.printed", f"{sc['pipeline']}: printed figures with workers={w} chunk={c}: {out.get('printed')!r} vs serial {base.get('printed')!r}",
                                pipeline=sc["pipeline"])
                    return res
    for k, v in counters.items():
        res.bump(f"probe.{k}", v)
    res.bump(f"pipeline.{sc['pipeline']}")
    res.nontrivial = pl.size(sc) >= 2
    return res


def shrink_candidates(sc):
    pl = PIPELINES[sc["pipeline"]]
    # fewer configurations
    for i in range(1, len(sc["configs"])):
        c = copy.deepcopy(sc)
        del c["configs"][i]
        yield c
    yield from pl.shrink(sc)
    for k, v in {"prefix": "", "suffix": ".pt"}.items():
        if sc.get(k) != v:
            c = copy.deepcopy(sc)
            c[k] = v
            yield c
    for i in range(1, len(sc["configs"])):
        w, ch, tape, depth = sc["configs"][i]
        if tape:
            c = copy.deepcopy(sc)
            c["configs"][i][2] = tape[: len(tape) // 2]
            yield c
            c = copy.deepcopy(sc)
            c["configs"][i][2] = [0] * len(tape)
            yield c
        if w > 1:
            c = copy.deepcopy(sc)
            c["configs"][i][0] = w - 1
            yield c
        if ch > 1:
            c = copy.deepcopy(sc)
            c["configs"][i][1] = 1
            yield c


def sample_repr(sc):
    out = {k: v for k, v in sc.items() if k != "configs"}
    out["configs"] = [[w, c, f"tape[{len(t)}]", d] for w, c, t, d in sc["configs"]]
    return out


GROUP_KEYS = ("oracle", "pipeline", "exc", "what", "cmd")
BUDGET = {"quick": 16000, "thorough": 40000}
WALL_CAP = {"quick": 400, "thorough": 3300}
RULE = (
    "run i derives a small corpus (0..8 utterances; ids incl. prefixes of each other and dots), naming (--file-prefix/--file-suffix), a pipeline of "
    "console commands (trn / ctm / TextGrid round trips, ali<->token, error rates, subset, length moments + mvn stats, chunking) with a flag vector, "
    "and 3-4 execution configurations (workers in {0,1,2,3,5}, chunk size in {1,2,3,1000}, choice tape, queue depth) from sha256(VERIF_SEED/C17/i). "
    "One evaluation = the whole pipeline executed under every configuration on a fresh scratch directory with seed-permuted listings, the inverse/figure "
    "oracle judged on the serial run and every other run compared with it. Non-trivial = >= 2 utterances; distinct = scenario hash."
)
STATE_MEASURE = "distinct (pipeline, chunk-delivery order) sequences observed at the consumer of a worker pool"
COMPONENTS = {
    "real": ["pydrobert.torch.command_line (all 16 entry points called in-process)", "_parsing, _textgrid, _datasets, _feats, _pad, _string underneath", "real files on a tmpfs scratch directory",
             "torch.save/load", "DataLoader with num_workers=0"],
    "stub": ["torch.multiprocessing.Pool / get_context(...).Pool: simkit.simpool.SimPool (single-threaded model of multiprocessing.Pool, tape-scheduled)",
             "torch.utils.data.DataLoader(num_workers>0): SimDataLoader (in-order, pickled items; torch's in-order contract assumed)", "os.listdir: seed-permuted under the scratch root"],
}
ASSUMPTIONS = [
    "workers are simulated in-process and share the imported module; start-up state of a freshly spawned interpreter, real pipes and OS-killed workers are not modelled",
    "no I/O errors are injected (the property makes no statement about them)",
    "failing commands are compared across schedules by exception type only",
    "times survive a round trip to within one frame shift; printed figures are compared numerically within one unit of the last printed digit against float64 recomputation and as exact strings across worker counts",
    "duplicate utterance ids are malformed input and are not generated",
]


def fidelity(seed, n_per_pipeline=2):
    """Stub-fidelity probe (informational, never part of a verdict): the same pipelines with the
    REAL spawn pool (2 workers, chunk size 1) must give the serial result, which is also what
    every SimPool schedule has to give.  Real processes are not deterministic, so this cannot
    be a deciding step; it only checks that the model and the real pool agree where they can."""
    import json
    import time

    from simkit.core import derive_rng
    from simkit import runner

    t0 = time.time()
    rows = []
    for name in ("ali", "trn", "ctm", "tg", "stats", "subset", "chunk-workers"):
        pl = PIPELINES[name]
        done = 0
        i = 0
        while done < n_per_pipeline and i < 200:
            sc = generate(derive_rng(seed, "fidelity-" + name, i), "quick", i, only=[name])
            i += 1
            if pl.size(sc) < 3 or sc.get("huge"):
                continue
            if name == "stats" and sc["what"] not in ("ali", "ref"):
                continue
            outs = []
            for w in (0, 2):
                with Scratch() as s:
                    random.seed(12345)
                    torch.manual_seed(12345)
                    outs.append(pl.run(sc, s, SimConfig(w, 1, [], 4), RunResult()))
            same = outs[0]["status"] == outs[1]["status"] and (outs[0]["status"] != [("rc", 0)] * len(outs[0]["status"]) or diff_snapshots(outs[0]["snap"], outs[1]["snap"]) is None) \
                and outs[0].get("printed") == outs[1].get("printed")
            rows.append({"pipeline": name, "utterances": pl.size(sc), "real_pool_equals_serial": bool(same), "status": [list(x) for x in outs[1]["status"]]})
            done += 1
    rep = {"seed": seed, "rows": rows, "agree": sum(r["real_pool_equals_serial"] for r in rows), "total": len(rows), "wall_s": round(time.time() - t0, 1),
           "note": "informational: real multiprocessing spawn pool (2 workers, chunk size 1) vs the serial run; never affects any check's exit code"}
    os.makedirs(runner.EVIDENCE, exist_ok=True)
    with open(os.path.join(runner.EVIDENCE, "fidelity.json"), "w") as f:
        json.dump(rep, f, indent=1)
    for r in rows:
        print(f"fidelity {r['pipeline']}: {'agrees' if r['real_pool_equals_serial'] else 'DIFFERS'} ({r['utterances']} utterances)")
    print(f"selftest-fidelity: real pool agrees with the serial run in {rep['agree']}/{rep['total']} pipelines ({rep['wall_s']}s)")
    return 0
