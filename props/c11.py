"""C11: transcript files read back exactly what was written (the schedule / stream / round-trip clauses)."""
import copy
import io
import os
import warnings

import torch

from simkit.core import HarnessError, RunResult, Tape, make_tape
from simkit.simpool import PoolSim
from .cmdsim import Scratch
from . import pipelines as P

ID = "C11"
LEVEL = {"quick": "exploration", "thorough": "exploration"}
WORDS = P.WORDS + ["@", "it's", "x_y"]
# trn separates tokens by the space character only: other white space inside a token is part of the token
TRN_WORDS = WORDS + ["10\u00a0000", "a\tb", "\u6771\u4eac\u3000\u90fd", "x\u202fy", "\u00e9t\u00e9"]


# ---------------------------------------------------------------------------------------
def gen_elems(rng, depth, n, maxdepth):
    out = []
    for _ in range(n):
        if depth < maxdepth and rng.random() < 0.25:
            nb = rng.randrange(2, 4)
            out.append({"alt": [gen_elems(rng, depth + 1, rng.randrange(1, 3), maxdepth) for _ in range(nb)]})
        else:
            out.append(rng.choice(TRN_WORDS))
    return out


def to_lib(elems, top=True):
    """My nested structure -> the library's transcript representation."""
    out = []
    for e in elems:
        if isinstance(e, str):
            out.append(e)
        else:
            branches = [to_lib(b, False) for b in e["alt"]]
            out.append((branches, -1, -1) if top else branches)
    return out


def generate(rng, tier, index):
    fmt = rng.choice(["trn", "trn", "ctm", "tg", "token"])
    n = rng.choice([0, 1, 2, 3, 5, 8, 12])
    ids = rng.sample(P.ID_POOL, min(n, len(P.ID_POOL)))
    sc = {"fmt": fmt, "seed2": rng.randrange(1 << 20)}
    if fmt == "trn":
        sc["utts"] = [{"id": u, "elems": gen_elems(rng, 0, rng.randrange(0, 7), rng.choice([0, 1, 3]))} for u in ids]
        sc["reads"] = [[rng.choice([1, 2, 3, 5]), rng.choice([1, 1, 2, 3, 1000]), make_tape(rng, 40 + 10 * n), rng.choice([1, 2, 4, 8])] for _ in range(rng.choice([1, 2, 3]))]
        sc["blank_lines"] = rng.random() < 0.3
    elif fmt == "ctm":
        utts = []
        for k, u in enumerate(ids):
            toks, t = [], rng.randrange(0, 300)
            for _ in range(rng.randrange(1, 6)):
                dur = rng.choice([0, 10, 30, 45, 120, 500, 1])
                toks.append([rng.choice(WORDS), t, t + dur])
                t += rng.choice([0, dur, dur + 15, dur + 9000])
            utts.append({"id": u, "wfn": f"w{k // 2}", "chan": "AB"[k % 2], "toks": toks})
        sc["utts"] = utts
        sc["mapping"] = rng.choice(["dict", "dict", "channel", "default"])
        sc["channel"] = rng.choice(["B", "1", "chanX"])
    elif fmt == "tg":
        prec = rng.choice([0, 1, 2, 3, 3, 4, 6])
        sc["prec"] = prec
        point = rng.random() < 0.35
        # times are integer multiples of 10**-prec, kept as integers (units)
        items, t = [], rng.choice([0, 0, 3, 40])
        for _ in range(rng.randrange(1, 7)):
            if rng.random() < 0.3:
                t += rng.choice([1, 5, 970 * 10 ** max(prec - 2, 0)])
            dur = 0 if point else rng.choice([1, 2, 7, 120])
            items.append([rng.choice(WORDS), t, t + dur])
            t += dur if not point else rng.choice([1, 3])
        sc["items"] = items
        sc["point"] = point
        sc["start_extra"] = rng.choice([None, None, 0, -1])  # start_time argument relative to the tier start (None: omitted)
        sc["end_extra"] = rng.choice([None, None, 0, 5])
        sc["tier_name"] = rng.choice([None, "words", "phones 1"])
        sc["point_tier_arg"] = rng.choice([None, None, None, "same", "flip"])
        sc["fill"] = rng.random() < 0.5
        sc["read_by"] = rng.choice(["default", "name", "idx"])
    else:
        toks = []
        t = rng.randrange(0, 500)
        for _ in range(rng.randrange(0, 8)):
            dur = rng.choice([0, 10, 25, 40, 333, 1000])
            toks.append([rng.choice(WORDS + ["oov1"]), t, t + dur] if rng.random() < 0.8 else [rng.choice(WORDS), None, None])
            t += dur + rng.choice([0, 7, 100])
        sc["toks"] = toks
        sc["fs"] = rng.choice([None, 10.0, 20.0, 12.5, 1000.0 / 16, 16.0, 15.0, 7.5, 30.0])  # also shifts that do not divide one second
        if rng.random() < 0.3:
            toks = [[a, (b + 20000 if b is not None else None), (c + 20000 if c is not None else None)] for a, b, c in toks]  # late in a long recording
            sc["toks"] = toks
        sc["unk"] = rng.choice([None, "<unk>", 99])
        sc["skip"] = rng.random() < 0.25
        sc["use_map"] = rng.random() < 0.8
        sc["big_ids"] = rng.random() < 0.15  # ids that a float32 cannot hold exactly
        if rng.random() < 0.08:
            # sample-level frames late in a long recording: frame indices above 2**25
            sc["fs"] = 1000.0 / 16000
            sc["toks"] = [[a, (b + 2_500_000 if b is not None else None), (c + 2_500_000 if c is not None else None)] for a, b, c in sc["toks"]]
    return sc


# ---------------------------------------------------------------------------------------
def both_ways(write, s, name, res, what, **sig):
    """Runs write(target) for a path, an open file and a StringIO; returns the bytes, or None
    after reporting a violation."""
    p1, p2 = s.p(name + ".path"), s.p(name + ".file")
    outs = {}
    try:
        write(p1)
        outs["path"] = open(p1).read()
    except Exception as e:  # noqa
        outs["path"] = e
    try:
        with open(p2, "w") as f:
            write(f)
        outs["file"] = open(p2).read()
    except Exception as e:  # noqa
        outs["file"] = e
    try:
        buf = io.StringIO()
        write(buf)
        outs["buffer"] = buf.getvalue()
    except Exception as e:  # noqa
        outs["buffer"] = e
    # a file with a history: something already in it, then two collections written one after the other
    p3 = s.p(name + ".used")
    try:
        with open(p3, "w") as f:
            f.write(";; earlier content\n")
            write(f)
        with open(p3, "a") as f:
            write(f)
        outs["used"] = open(p3).read()
    except Exception as e:  # noqa
        outs["used"] = e
    kinds = {k: (type(v).__name__ if isinstance(v, Exception) else "ok") for k, v in outs.items()}
    if len(set(kinds.values())) > 1:
        res.violate("stream.outcome-differs", f"{what}: writing to a path / open file / buffer ends differently: {kinds}", **sig)
        return None
    if isinstance(outs["path"], Exception):
        return outs["path"]
    if not (outs["path"] == outs["file"] == outs["buffer"]):
        a, b = outs["path"].splitlines(), outs["file"].splitlines()
        line = next((i for i, (x, y) in enumerate(zip(a, b)) if x != y), min(len(a), len(b)))
        res.violate("stream.bytes-differ", f"{what}: output through a path differs from output through an open file at line {line + 1}: "
                    f"{a[line] if line < len(a) else None!r} vs {b[line] if line < len(b) else None!r}", first_diff_line=line + 1,
                    first_diff=[a[line] if line < len(a) else None, b[line] if line < len(b) else None], **sig)
        return None
    if outs["used"] != ";; earlier content\n" + 2 * outs["path"]:
        res.violate("stream.used-file", f"{what}: written after earlier content and then again in append mode, the file does not hold the earlier content followed by the output twice", **sig)
        return None
    res.bump("fault.file_with_history")
    return outs["path"]


def prime(s, path, text, reader, res):
    """The path about to be (re)written through the harness's own open file held other content a moment
    ago (left by the warm-up round), and that content is read by path first: a reader that remembers
    what a path held then returns it again (no library call writes to the path in between)."""
    old = getattr(s, "prime_text", {}).get(path)
    if old is not None and old != text:
        with open(path, "w") as f:
            f.write(old)
        try:
            reader(path)
        except HarnessError:
            raise
        except Exception:  # noqa
            pass
        res.bump("fault.reread_after_rewrite")
    if not hasattr(s, "prime_text"):
        s.prime_text = {}
    s.prime_text[path] = text


def warm_up(sc):
    """The same workload on the first utterance / item only, run first in the same process on the same
    paths: whatever the library remembers between calls is then stale (not judged)."""
    w = copy.deepcopy(sc)
    for k in ("utts", "items", "toks"):
        if isinstance(w.get(k), list) and len(w[k]) > 1:
            w[k] = w[k][:1]
            return w
    return None


def execute(sc):
    res = RunResult()
    with warnings.catch_warnings():
        warnings.simplefilter("ignore")
        from pydrobert.torch import data

        with Scratch() as s:
            fn = {"trn": run_trn, "ctm": run_ctm, "tg": run_tg, "token": run_token}[sc["fmt"]]
            w = warm_up(sc)
            if w is not None:
                try:
                    fn(w, s, RunResult(), data)
                except HarnessError:
                    raise
                except Exception:  # noqa
                    pass
                res.bump("fault.stale_state_round")
            fn(sc, s, res, data)
    res.bump(f"fmt.{sc['fmt']}")
    return res


def run_trn(sc, s, res, data):
    lib = [(u["id"], to_lib(u["elems"])) for u in sc["utts"]]
    text = both_ways(lambda tgt: data.write_trn(copy.deepcopy(lib), tgt), s, "w.trn", res, "write_trn")
    if text is None:
        return
    if isinstance(text, Exception):
        res.violate("trn.write-raised", f"write_trn raised {type(text).__name__}: {text}")
        return
    if sc["blank_lines"]:
        text = text.replace("\n", "\n\n")
    path = s.p("in.trn")
    prime(s, path, text, lambda p: data.read_trn(p, warn=False), res)
    with open(path, "w") as f:
        f.write(text)
    try:
        serial = data.read_trn(path, warn=False)
        with open(path) as f:
            via_file = data.read_trn(f, warn=False)
    except HarnessError:
        raise
    except Exception as e:  # noqa
        res.violate("trn.read-raised", f"read_trn of a file written by write_trn raised {type(e).__name__}: {e}", fmt="trn")
        return
    if serial != via_file:
        res.violate("stream.read-differs", "read_trn(path) != read_trn(open file)", fmt="trn")
        return
    want = [(u, t) for u, t in lib]
    if serial != want:
        bad = next((i for i, (a, b) in enumerate(zip(serial, want)) if a != b), min(len(serial), len(want)))
        res.violate("trn.round-trip", f"write_trn then read_trn: entry {bad}: read {serial[bad] if bad < len(serial) else None}, wrote {want[bad] if bad < len(want) else None}")
        return
    res.steps += 1
    res.nontrivial = len(lib) >= 2
    for procs, chunk, tape, depth in sc["reads"]:
        sim = PoolSim(Tape(tape), depth, event_budget=500 + 40 * len(lib))
        with sim.patched():
            try:
                got = data.read_trn(path, warn=False, processes=procs, chunk_size=chunk)
                with open(path) as f:
                    got_f = data.read_trn(f, warn=False, processes=procs, chunk_size=chunk)
            except HarnessError as e:
                if "event budget" not in str(e):
                    raise
                res.violate("liveness.pool", f"read_trn(processes={procs}, chunk_size={chunk}) did not terminate within {sim.event_budget} pool events")
                return
            except Exception as e:  # noqa
                res.violate("workers.raised", f"read_trn(processes={procs}, chunk_size={chunk}) raised {type(e).__name__}: {e}")
                return
        st = sim.stats
        res.steps += st.events
        res.bump("fault.schedule_variation")
        if st.max_busy >= 2:
            res.bump("probe.two_workers_busy")
        if st.max_lag >= 2:
            res.bump("probe.consumer_lagged_2_chunks")
        for order in st.delivery:
            if len(order) > 1:
                res.states.add("trn:" + ",".join(map(str, order)) + f":{st.max_busy}:{st.max_lag}")
        res.log.add("read", procs, chunk, depth, st.events)
        for g, how in ((got, "path"), (got_f, "open file")):
            if g != serial:
                same_set = sorted(map(repr, g)) == sorted(map(repr, serial))
                res.violate("workers.list-differs", f"read_trn({how}, processes={procs}, chunk_size={chunk}) differs from processes=0 "
                            f"({'same entries in another order' if same_set else 'different entries'}): {[u for u, _ in g]} vs {[u for u, _ in serial]}", reordered=same_set)
                return


def run_ctm(sc, s, res, data):
    # a quarter of the scenarios count in samples of a 16 kHz recording instead of milliseconds: times below
    # 1e-4 s, which Python prints in exponent notation (derived from the scenario: older ones keep their derivation)
    unit = 16000.0 if (len(sc["utts"]) + sum(len(u["toks"]) for u in sc["utts"])) % 4 == 0 else 1000.0
    if unit != 1000.0:
        res.bump("probe.ctm_sample_level_times")
    lib = [(u["id"], [(tok, a / unit, b / unit) for tok, a, b in u["toks"]]) for u in sc["utts"]]
    if sc["mapping"] == "dict":
        utt2wc = {u["id"]: (u["wfn"], u["chan"]) for u in sc["utts"]}
        wc2utt = {v: k for k, v in utt2wc.items()}
        wargs = (utt2wc,)
    elif sc["mapping"] == "channel":
        utt2wc, wc2utt, wargs = sc["channel"], None, (sc["channel"],)
    else:
        utt2wc, wc2utt, wargs = None, None, ()
    text = both_ways(lambda tgt: data.write_ctm(copy.deepcopy(lib), tgt, *wargs), s, "w.ctm", res, f"write_ctm (utt2wc {sc['mapping']})", fmt="ctm")
    if text is None:
        return
    if isinstance(text, Exception):
        res.violate("ctm.write-raised", f"write_ctm raised {type(text).__name__}: {text}")
        return
    rows = [l.split() for l in text.splitlines()]
    keys = [(r[0], r[1], float(r[2])) for r in rows]
    if keys != sorted(keys):
        res.violate("ctm.order", "write_ctm output is not sorted by (recording, channel, start)")
        return
    if sc["mapping"] == "channel" and any(r[1] != sc["channel"] for r in rows):
        res.violate("ctm.channel", f"channel {sc['channel']} not used")
        return
    path = s.p("in.ctm")
    prime(s, path, text, lambda p: data.read_ctm(p, wc2utt), res)
    with open(path, "w") as f:
        f.write(";; comment\n" + text.replace("\n", "  ;; trailing\n", 1))
    try:
        got = data.read_ctm(path, wc2utt)
        with open(path) as f:
            got_f = data.read_ctm(f, wc2utt)
    except HarnessError:
        raise
    except Exception as e:  # noqa
        res.violate("ctm.read-raised", f"read_ctm of a file written by write_ctm raised {type(e).__name__}: {e}", fmt="ctm")
        return
    if got != got_f:
        res.violate("stream.read-differs", "read_ctm(path) != read_ctm(open file)", fmt="ctm")
        return
    want = {u: sorted(t, key=lambda x: x[1]) for u, t in lib}
    gd = dict(got)
    if len(gd) != len(got) or set(gd) != set(want):
        res.violate("ctm.utterances", f"read_ctm returned utterances {[u for u, _ in got]}, wrote {sorted(want)}")
        return
    for u, w in want.items():
        g = gd[u]
        if [x[1] for x in g] != sorted(x[1] for x in g):
            res.violate("ctm.sorted", f"utterance {u} not ordered by start time")
            return
        ok = len(g) == len(w)
        used = [False] * len(g)
        for tok, a, b in w:
            hit = next((i for i, (gt, ga, gb) in enumerate(g) if not used[i] and gt == tok and ga == a and abs(gb - b) <= 1e-9), None) if ok else None
            if hit is None:
                ok = False
                break
            used[hit] = True
        if not ok:
            res.violate("ctm.round-trip", f"write_ctm then read_ctm, utterance {u}: read {g}, wrote {w}")
            return
    res.steps += 1
    res.nontrivial = len(lib) >= 2


def run_tg(sc, s, res, data):
    prec = sc["prec"]
    unit = 10.0 ** (-prec)
    items = [(tok, a * unit, b * unit) for tok, a, b in sc["items"]]
    t0, t1 = min(x[1] for x in items), max(x[2] for x in items)
    kwargs = {"precision": prec}
    if sc["start_extra"] is not None and t0 + sc["start_extra"] * unit >= 0:
        kwargs["start_time"] = t0 + sc["start_extra"] * unit
    if sc["end_extra"] is not None:
        kwargs["end_time"] = t1 + sc["end_extra"] * unit
    if sc["tier_name"]:
        kwargs["tier_name"] = sc["tier_name"]
    inferred_point = all(a == b for _, a, b in sc["items"])
    if sc["point_tier_arg"] == "same":
        kwargs["point_tier"] = inferred_point
    elif sc["point_tier_arg"] == "flip" and inferred_point:
        kwargs["point_tier"] = False  # zero-length intervals written as an interval tier
    explicit = "point_tier" in kwargs and kwargs["point_tier"] != inferred_point
    text = both_ways(lambda tgt: data.write_textgrid(list(items), tgt, **kwargs), s, "w.tg", res, f"write_textgrid({', '.join(sorted(kwargs))})", fmt="tg",
                     option="point_tier" if explicit else ("precision" if prec != 3 else "other"))
    if text is None:
        return
    if isinstance(text, Exception):
        res.violate("tg.write-raised", f"write_textgrid raised {type(text).__name__}: {text}")
        return
    path = s.p("in.TextGrid")
    name = sc["tier_name"] or "transcript"
    tier_id = {"default": 0, "idx": 0, "name": name}[sc["read_by"]]
    # the label unlabelled gaps get: a word, or the empty label (Praat's own way of writing them); the choice is
    # derived from the scenario so that older scenarios keep their derivation
    fill = (["FILL", "FILL", ""][len(sc["items"]) % 3] if sc["fill"] else None)
    filling = fill is not None
    prime(s, path, text, lambda p: data.read_textgrid(p, tier_id, fill), res)
    with open(path, "w") as f:
        f.write(text)
    try:
        got, gx0, gx1 = data.read_textgrid(path, tier_id, fill)
        with open(path) as f:
            got_f = data.read_textgrid(f, tier_id, fill)
    except Exception as e:  # noqa
        res.violate("tg.read-raised", f"read_textgrid of a file written by write_textgrid raised {type(e).__name__}: {e}")
        return
    if (got, gx0, gx1) != got_f:
        res.violate("stream.read-differs", "read_textgrid(path) != read_textgrid(open file)", fmt="tg")
        return
    want = list(items)
    if filling and not kwargs.get("point_tier", inferred_point):
        filled, t = [], t0
        for tok, a, b in want:
            if t < a - 1e-9:
                filled.append((fill, t, a))
            filled.append((tok, a, b))
            t = b
        want = filled
    elif filling:
        want = None  # gap filling between points: not judged
    if want is not None:
        ok = len(got) == len(want) and all(g[0] == w[0] and abs(g[1] - w[1]) <= 1e-9 and abs(g[2] - w[2]) <= 1e-9 for g, w in zip(got, want))
        if not ok:
            res.violate("tg.round-trip", f"write_textgrid then read_textgrid (precision {prec}{', gaps filled with ' + repr(fill) if filling else ''}): read {got}, wrote {want}", spans_10=any(x[1] < 10 <= y[1] for x in items for y in items))
            return
    if abs(gx0 - t0) > 0.5 * unit + 1e-9 or abs(gx1 - t1) > 0.5 * unit + 1e-9:
        res.violate("tg.bounds", f"tier bounds read back as ({gx0}, {gx1}), wrote ({t0}, {t1})")
        return
    res.steps += 1
    res.nontrivial = len(items) >= 2


def run_token(sc, s, res, data):
    fs = sc["fs"]
    t2i = dict(P.TOK2ID) if sc["use_map"] else None
    if t2i is not None and sc.get("big_ids"):
        t2i = {k: (16777217 + 2 * v if v % 2 else 4000000001 + v) for k, v in t2i.items()}
    i2t = {v: k for k, v in t2i.items()} if t2i else None
    transcript = []
    for tok, a, b in sc["toks"]:
        if not sc["use_map"]:
            tok = P.TOK2ID.get(tok, 99)  # ids directly
            if sc.get("big_ids"):
                tok = 16777217 + 2 * tok
        if a is None:
            transcript.append(tok)
        elif fs:
            transcript.append((tok, a / 1000.0, b / 1000.0))
        else:
            transcript.append((tok, a // 10, b // 10))  # already frames
    unk = sc["unk"]
    has_oov = sc["use_map"] and any((t if isinstance(t, str) else t[0]) not in t2i for t in transcript)
    try:
        tok = data.transcript_to_token(copy.deepcopy(transcript), t2i, fs, unk, sc["skip"])
    except Exception as e:  # noqa
        if has_oov and unk is None:
            res.bump("probe.oov_without_unk_raises")
            return
        res.violate("token.to-raised", f"transcript_to_token raised {type(e).__name__}: {e}")
        return
    if tok.dtype != torch.long or tok.shape != ((len(transcript),) if sc["skip"] else (len(transcript), 3)):
        res.violate("token.shape", f"token tensor has dtype {tok.dtype} shape {tuple(tok.shape)}")
        return
    back = data.token_to_transcript(tok, i2t, fs)
    if len(back) != len(transcript):
        res.violate("token.length", "token round trip changed the number of tokens")
        return
    tol = (fs / 1000.0 + 1e-9) if fs else 0
    for orig, got in zip(transcript, back):
        o_tok = orig if not isinstance(orig, tuple) else orig[0]
        if sc["use_map"] and o_tok not in t2i:
            o_tok = unk if not (unk in t2i) else unk  # mapped to the unknown symbol / id
            if unk == 99:
                o_tok = 99
        g_tok = got if not isinstance(got, tuple) else got[0]
        if g_tok != o_tok:
            res.violate("token.round-trip", f"token {o_tok!r} came back as {g_tok!r}")
            return
        if isinstance(orig, tuple) and not sc["skip"]:
            if not isinstance(got, tuple):
                res.violate("token.times-lost", f"token {orig} came back without times: {got}")
                return
            if abs(got[1] - orig[1]) > tol or abs(got[2] - orig[2]) > tol:
                res.violate("token.times", f"token {orig} came back as {got}: more than one frame shift ({fs} ms) off", fs=fs)
                return
            if got[2] < got[1]:
                res.violate("token.times-order", f"token {orig} came back with end before start: {got}")
                return
        elif isinstance(got, tuple):
            res.violate("token.times-invented", f"token {orig} came back with times {got}")
            return
    res.steps += 1
    res.nontrivial = len(transcript) >= 2


def shrink_candidates(sc):
    for key in ("utts", "items", "toks", "reads"):
        if key in sc:
            for i in range(len(sc[key])):
                if key in ("items",) and len(sc[key]) == 1:
                    continue
                c = copy.deepcopy(sc)
                del c[key][i]
                yield c
    if sc["fmt"] == "trn":
        for i, u in enumerate(sc["utts"]):
            for j in range(len(u["elems"])):
                c = copy.deepcopy(sc)
                del c["utts"][i]["elems"][j]
                yield c
        for i, r in enumerate(sc["reads"]):
            c = copy.deepcopy(sc)
            c["reads"][i][2] = [0] * len(r[2])
            yield c
            if r[0] > 1:
                c = copy.deepcopy(sc)
                c["reads"][i][0] = r[0] - 1
                yield c
    for k, v in {"blank_lines": False, "fill": False, "tier_name": None, "start_extra": None, "end_extra": None, "point_tier_arg": None, "read_by": "default", "skip": False, "unk": None,
                 "mapping": "default"}.items():
        if k in sc and sc[k] != v:
            c = copy.deepcopy(sc)
            c[k] = v
            yield c


def sample_repr(sc):
    out = dict(sc)
    if "reads" in out:
        out["reads"] = [[p, c, f"tape[{len(t)}]", d] for p, c, t, d in out["reads"]]
    return out


GROUP_KEYS = ("oracle", "fmt", "option", "reordered", "spans_10")
BUDGET = {"quick": 60000, "thorough": 200000}
WALL_CAP = {"quick": 300, "thorough": 3000}
RULE = (
    "run i derives a format (trn with alternates nested to depth 3 / ctm with any waveform-channel mapping / TextGrid interval or point tier at precision "
    "0..6 with gaps / token tensor with token2id, unk, frame shift) and its option vector from sha256(VERIF_SEED/C11/i). Writers are driven through a path, "
    "an open file and a StringIO (byte comparison), readers through a path and an open file; read_trn is additionally run with 1-5 worker processes under "
    "SimPool with tape-chosen schedules, chunk sizes and queue depths and compared with processes=0; the round trip is judged on the generated transcripts. "
    "Non-trivial = >= 2 utterances/tokens; distinct = scenario hash."
)
STATE_MEASURE = "distinct (chunk delivery order, max busy workers, max consumer lag) triples seen by multi-process read_trn"
COMPONENTS = {
    "real": ["pydrobert.torch._parsing (read/write trn, ctm, textgrid; transcript_to_token, token_to_transcript)", "_textgrid.TextGrid", "real files on a tmpfs scratch directory"],
    "stub": ["torch.multiprocessing.Pool: simkit.simpool.SimPool (ordered imap, tape-scheduled)"],
}
ASSUMPTIONS = [
    "the first sentence (round trip for EVERY transcript) is an input-space statement; it is sampled through this workload, not decided",
    "tokens and ids are free of whitespace and of the format's delimiters; TextGrid times are integer multiples of 10**-precision (so printing is exact and distinct times stay distinct)",
    "ctm entries are compared per utterance as a multiset ordered by start, ends within 1e-9; gap filling is judged for interval tiers only",
    "known finding C11-D3b: an explicitly passed point_tier is not forwarded by write_textgrid(path, ...) (pinned by tests/test_command_line.py)",
]
