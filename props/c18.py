"""C18 (first clause): mean-variance statistics over any partition / order of accumulation."""
import copy
import random
import warnings

import numpy as np
import torch

from simkit.core import HarnessError, RunResult, Tape, make_tape
from simkit.simfs import SimFS, patched, ROOT

ID = "C18"
LEVEL = {"quick": "exploration", "thorough": "exploration"}


def generate(rng, tier, index):
    D = rng.choice([1, 2, 2, 3])
    dim = rng.randrange(-D, D)
    F = rng.randrange(1, 5)
    n = rng.randrange(1, 7)
    shapes = []
    for _ in range(n):
        shp = [rng.choice([1, 2, 3, 4, 5, 5, 37]) for _ in range(D)]
        shp[dim % D] = F
        shapes.append(shp)
    if rng.random() < 0.25:
        # the feature vector is the last dimension (the default); tensors of different rank in one history
        dim = -1
        shapes = []
        for _ in range(n):
            Di = rng.choice([1, 2, 2, 3])
            shapes.append([rng.randrange(1, 6) for _ in range(Di - 1)] + [F])
        D = max(len(s_) for s_ in shapes)
    sc = {
        "D": D, "dim": dim, "F": F, "shapes": shapes,
        "dtype": rng.choice(["float32", "float32", "float64"]),
        "offset": rng.choice([0.0, 0.0, 3.0, -10.0, 100.0]),
        "scale": rng.choice([1.0, 0.25, 8.0]),
        "salt": rng.randrange(1 << 20),
        "bessel": rng.random() < 0.4,
        "mode": rng.choice(["module", "module", "module", "command"]),
        "tape": make_tape(rng, 64),
        "interim_store": rng.random() < 0.3,
        "groups": rng.choice([0, 0, 2, 3]),
        "prefix": rng.choice(["", "f_"]),
        "suffix": rng.choice([".pt", ".feat"]),
        "listing_seed": rng.randrange(1 << 20),
        "command_dim_default": rng.random() < 0.5,
    }
    sc["eps"] = rng.choice([None, None, None, 1e-5, 0.5, 2.0])  # the floor under the std in y = (x - mean) / max(std, eps)
    return sc


def tensors_of(sc):
    r = random.Random(sc["salt"])
    out = []
    for shp in sc["shapes"]:
        num = int(np.prod(shp))
        vals = [sc["offset"] + sc["scale"] * r.randrange(-16, 17) * 0.25 for _ in range(num)]
        # per-coefficient shift so that coefficients differ
        t = torch.tensor(vals, dtype=torch.float64).reshape(shp)
        idx = [None] * len(shp)
        idx[sc["dim"] % len(shp)] = slice(None)
        shift = torch.arange(sc["F"], dtype=torch.float64) * 0.5 * sc["scale"]
        t = t + shift[tuple(idx)] if len(shp) > 1 else t + shift
        out.append(t.to(getattr(torch, sc["dtype"])))
    return out


def pooled(tensors, dim):
    rows = []
    for t in tensors:
        D = t.dim()
        rows.append(np.moveaxis(t.double().numpy(), dim % D, -1).reshape(-1, t.shape[dim % D]))
    return np.concatenate(rows, 0)


def partition(t, dim, tape):
    """Cuts t into chunks along a tape-chosen non-feature axis (if any)."""
    D = t.dim()
    axes = [a for a in range(D) if a != dim % D and t.shape[a] > 1]
    if not axes or not tape.flip(2, 3):
        return [t]
    a = axes[tape.choose(len(axes))]
    n = t.shape[a]
    cut = 1 + tape.choose(n - 1)
    parts = [t.narrow(a, 0, cut), t.narrow(a, cut, n - cut)]
    out = []
    for p in parts:
        out += partition(p, dim, tape) if tape.flip(1, 3) else [p]
    return out


def tol_for(sc, pool):
    scale = float(np.abs(pool).max()) + 1.0
    if sc["dtype"] == "float64":
        return dict(rtol=1e-9, atol=1e-9 * scale)
    return dict(rtol=1e-4, atol=1e-4 * scale)


def std_tol(sc, pool):
    # var = E[x^2] - mean^2 in double, inputs summed per chunk in their own dtype
    scale = float(np.abs(pool).max()) + 1.0
    if sc["dtype"] == "float64":
        return dict(rtol=1e-7, atol=1e-7 * scale)
    return dict(rtol=2e-3, atol=2e-3 * scale)


def execute(sc):
    res = RunResult()
    tape = Tape(sc["tape"])
    tensors = tensors_of(sc)
    dim = sc["dim"]
    with warnings.catch_warnings():
        warnings.simplefilter("ignore")
        from pydrobert.torch.modules import MeanVarianceNormalization

        if sc["mode"] == "module":
            chunks = []
            for t in tensors:
                chunks += partition(t, dim, tape)
            order = list(range(len(chunks)))
            # tape-chosen delivery order
            delivered = []
            while order:
                delivered.append(order.pop(tape.choose(len(order))))
            pool = pooled(tensors, dim)
            count = pool.shape[0]
            eps = sc.get("eps")
            mvn = MeanVarianceNormalization(dim) if eps is None else MeanVarianceNormalization(dim, eps=eps)
            seen = []
            for j, ci in enumerate(delivered):
                mvn.accumulate(chunks[ci])
                seen.append(chunks[ci])
                res.steps += 1
                res.log.add("acc", tuple(chunks[ci].shape))
                # STORE(bessel) is an operation of the history like any other: with
                # delete_stats=False it may happen any number of times, in any place
                for _ in range(2):
                    if not (sc["interim_store"] and pooled(seen, dim).shape[0] >= 2 and tape.choose(3) == 2):
                        break
                    b = tape.choose(2) == 1
                    try:
                        mvn.store(delete_stats=False, bessel=b)
                    except Exception as e:  # noqa
                        res.violate("store.raised", f"store(delete_stats=False, bessel={b}) raised {type(e).__name__}: {e} with {pooled(seen, dim).shape[0]} frames accumulated", bessel=b)
                        return res
                    part = pooled(seen, dim)
                    if not np.allclose(mvn.mean.double().numpy(), part.mean(0), **tol_for(sc, part)):
                        res.violate("interim.mean", f"store(delete_stats=False, bessel={b}) after {len(seen)} chunks does not give the mean of the frames accumulated so far", bessel=b)
                        return res
                    if not np.allclose(mvn.std.double().numpy(), part.std(0, ddof=1 if b else 0), **std_tol(sc, part)):
                        res.violate("interim.std", f"store(delete_stats=False, bessel={b}) after {len(seen)} chunks does not give the std of the frames accumulated so far", bessel=b)
                        return res
                    res.bump("probe.interim_store")
                    res.log.add("store", b)
            if len(chunks) > len(tensors):
                res.bump("probe.partitioned")
            if delivered != sorted(delivered):
                res.bump("probe.reordered")
            if count < 2:
                try:
                    mvn.store(bessel=sc["bessel"])
                except RuntimeError:
                    res.bump("probe.too_few_frames_raises")
                    return res
                if sc["bessel"]:
                    res.violate("store.too-few", "store(bessel=True) accepted a single frame")
                return res
            try:
                mvn.store(bessel=sc["bessel"])
            except Exception as e:  # noqa
                res.violate("store.raised", f"store raised {type(e).__name__}: {e}")
                return res
            mean, std = mvn.mean.double().numpy(), mvn.std.double().numpy()
            want_mean = pool.mean(0)
            want_std = pool.std(0, ddof=1 if sc["bessel"] else 0)
            if not np.allclose(mean, want_mean, **tol_for(sc, pool)):
                res.violate("stats.mean", f"accumulated mean {mean.tolist()} != pooled mean {want_mean.tolist()} ({len(chunks)} chunks of {len(tensors)} tensors)", dtype=sc["dtype"])
                return res
            if not np.allclose(std, want_std, **std_tol(sc, pool)):
                res.violate("stats.std", f"accumulated std {std.tolist()} != pooled {'Bessel-corrected' if sc['bessel'] else 'population'} std {want_std.tolist()}", dtype=sc["dtype"], bessel=sc["bessel"])
                return res
            # normalising the pooled data gives zero mean, unit variance per coefficient
            if not sc["bessel"] and (want_std > 1e-3).all():
                ys = [mvn(t) for t in tensors]
                yp = pooled(ys, dim)
                tol = 1e-5 if sc["dtype"] == "float64" else 5e-3
                # documented: y = (x - mean) / max(std, eps): unit variance where the std is above the floor
                want_var = (want_std / np.maximum(want_std, eps)) ** 2 if eps is not None else np.ones_like(want_std)
                if np.abs(yp.mean(0)).max() > tol or np.abs(yp.var(0) - want_var).max() > 10 * tol:
                    res.violate("normalise.pooled", f"normalised pooled data has mean {yp.mean(0).tolist()} var {yp.var(0).tolist()}, documented variance {want_var.tolist()} (eps={eps})", dtype=sc["dtype"])
                    return res
                if eps is not None and (want_std < eps).any():
                    res.bump("probe.std_below_eps_floor")
                for y, t in zip(ys, tensors):
                    if y.shape != t.shape or y.dtype != t.dtype:
                        res.violate("normalise.shape", "normalised tensor changed shape or dtype")
                        return res
                res.bump("probe.normalised")
            # without stored statistics the input's own are used
            own = MeanVarianceNormalization(dim)
            t = max(tensors, key=lambda x: x.numel())
            pt = pooled([t], dim)
            if pt.shape[0] >= 2 and (pt.std(0) > 1e-3).all():
                y = pooled([own(t)], dim)
                tol = 1e-5 if sc["dtype"] == "float64" else 5e-3
                if np.abs(y.mean(0)).max() > tol or np.abs(y.var(0) - 1).max() > 10 * tol:
                    res.violate("normalise.own-stats", "without stored statistics the input's own statistics are not used")
                    return res
            # partly stored statistics: what is given is used, what is missing is the input's own
            #   y[..., i, ...] = (x[..., i, ...] - mean[i]) / max(std[i], eps)
            if pt.shape[0] >= 2 and (pt.std(0) > 1e-3).all():
                g = random.Random(sc["salt"] + 7)
                # the statistics a caller hands over need not have the data's type: double, single, or whole numbers
                sdt = g.choice(["float64", "float32", "int64"])
                if sdt == "int64":
                    given_mean = np.array([float(g.randrange(-4, 5)) for _ in range(sc["F"])])
                    given_std = np.array([float(g.choice([1, 2, 4])) for _ in range(sc["F"])])
                else:
                    given_mean = np.array([g.randrange(-8, 9) * 0.5 for _ in range(sc["F"])])
                    given_std = np.array([g.choice([0.5, 1.0, 2.0, 4.0]) for _ in range(sc["F"])])
                tol = 1e-6 if sc["dtype"] == "float64" else 5e-3
                res.bump(f"probe.given_statistics_{sdt}")
                for which in ("mean", "std"):
                    kw = {which: torch.tensor(given_mean if which == "mean" else given_std, dtype=getattr(torch, sdt))}
                    y = pooled([MeanVarianceNormalization(dim, **kw)(t)], dim)
                    m = given_mean if which == "mean" else pt.mean(0)
                    sd = given_std if which == "std" else pt.std(0)
                    want = (pt - m) / sd
                    if not np.allclose(y, want, rtol=tol, atol=tol * (1 + np.abs(want).max())):
                        res.violate("normalise.partial-stats", f"with only {which} given, the output is not (x - mean) / std with the input's own {'std' if which == 'mean' else 'mean'}", which=which)
                        return res
                res.bump("probe.partial_statistics")
            # store() with delete_stats=True (the default) starts a new history: what is accumulated
            # afterwards is pooled on its own (judged through the public methods only)
            if pt.shape[0] >= 2:  # (the code wants two frames even without Bessel's correction; not judged)
                try:
                    mvn.accumulate(t)
                    mvn.store(bessel=False)
                except Exception as e:  # noqa
                    res.violate("store.raised", f"accumulate + store after a deleting store raised {type(e).__name__}: {e}")
                    return res
                if not np.allclose(mvn.mean.double().numpy(), pt.mean(0), **tol_for(sc, pt)) or not np.allclose(mvn.std.double().numpy(), pt.std(0), **std_tol(sc, pt)):
                    res.violate("store.stats-kept", "store() with delete_stats=True kept the accumulated statistics: a second history is pooled with the first")
                    return res
                res.bump("probe.second_history_after_deleting_store")
            res.states.add(str((sc["D"], dim % sc["D"], len(chunks), sc["bessel"], sc["dtype"])))
            res.nontrivial = len(chunks) >= 2
            return res
        # ---- the command over a directory ------------------------------------------------
        fs = SimFS()
        lrng = random.Random(sc["listing_seed"])

        def perm(lst):
            lst = list(lst)
            lrng.shuffle(lst)
            if lst != sorted(lst):
                res.bump("probe.listing_not_sorted")
            return lst

        fs.listing_perm = perm
        with patched(fs):
            import os

            from pydrobert.torch import command_line

            d = f"{ROOT}/feats"
            os.makedirs(d)
            ids = [f"utt{i}" for i in range(len(tensors))]
            for i, t in zip(ids, tensors):
                torch.save(t, f"{d}/{sc['prefix']}{i}{sc['suffix']}")
            with open(f"{d}/README", "w") as f:
                f.write("stray")
            args = [d, f"{ROOT}/stats.pt", "--num-workers", "0", "--file-suffix", sc["suffix"]]
            if sc["prefix"]:
                args += ["--file-prefix", sc["prefix"]]
            cdim = dim
            if sc["command_dim_default"]:
                cdim = -1
            else:
                args += ["--dim", str(dim)]
            # all tensors must share the size of the normalised dimension
            if any(t.shape[cdim % t.dim()] != tensors[0].shape[cdim % tensors[0].dim()] for t in tensors):
                cdim = dim
                if "--dim" not in args:
                    args += ["--dim", str(dim)]
            if sc["bessel"]:
                args.append("--bessel")
            groups = {}
            if sc["groups"]:
                g = random.Random(sc["salt"] + 1)
                lines = []
                for i in ids:
                    gid = f"g{g.randrange(sc['groups'])}"
                    groups.setdefault(gid, []).append(i)
                    lines.append(f"{i} {gid}")
                g.shuffle(lines)
                with open(f"{ROOT}/id2gid", "w") as f:
                    f.write("\n".join(lines) + "\n")
                args += ["--id2gid", f"{ROOT}/id2gid"]
            else:
                groups = {None: ids}
            by_id = dict(zip(ids, tensors))
            counts = {gid: pooled([by_id[i] for i in members], cdim).shape[0] for gid, members in groups.items()}
            try:
                rc = command_line.compute_mvn_stats_for_torch_feat_data_dir(args)
            except RuntimeError as e:
                if min(counts.values()) < 2:  # too few frames for an estimate, whatever the wording
                    res.bump("probe.too_few_frames_raises")
                    return res
                res.violate("command.raised", f"compute-mvn-stats raised {type(e).__name__}: {e}")
                return res
            except Exception as e:  # noqa
                res.violate("command.raised", f"compute-mvn-stats raised {type(e).__name__}: {e}")
                return res
            if rc:
                res.violate("command.rc", f"compute-mvn-stats returned {rc}")
                return res
            if min(counts.values()) < 2:
                res.violate("command.too-few", "statistics computed from fewer than two frames")
                return res
            out = torch.load(f"{ROOT}/stats.pt")
            if not sc["groups"]:
                out = {None: out}
            elif set(out) == {"mean", "std"}:
                out = {next(iter(groups)): out}
            if set(out) != set(groups):
                res.violate("command.groups", f"groups in output {sorted(map(str, out))} != groups in id2gid {sorted(map(str, groups))}")
                return res
            for gid, members in groups.items():
                pool = pooled([by_id[i] for i in members], cdim)
                mean, std = out[gid]["mean"].double().numpy(), out[gid]["std"].double().numpy()
                if not np.allclose(mean, pool.mean(0), **tol_for(sc, pool)):
                    res.violate("command.mean", f"group {gid}: mean {mean.tolist()} != pooled mean of its files {pool.mean(0).tolist()}", grouped=bool(sc["groups"]))
                    return res
                want_std = pool.std(0, ddof=1 if sc["bessel"] else 0)
                if not np.allclose(std, want_std, **std_tol(sc, pool)):
                    res.violate("command.std", f"group {gid}: std {std.tolist()} != pooled std {want_std.tolist()}", grouped=bool(sc["groups"]), bessel=sc["bessel"])
                    return res
            res.steps += len(tensors)
            res.log.add("command", args[2:], sorted(map(str, groups)))
            res.states.add(str(("cmd", sc["groups"], sc["bessel"], len(tensors))))
            res.nontrivial = len(tensors) >= 2
    return res


def shrink_candidates(sc):
    for i in range(len(sc["shapes"])):
        if len(sc["shapes"]) > 1:
            c = copy.deepcopy(sc)
            del c["shapes"][i]
            yield c
    c = copy.deepcopy(sc)
    c["tape"] = []
    yield c
    for k, v in {"offset": 0.0, "scale": 1.0, "bessel": False, "interim_store": False, "groups": 0, "prefix": "", "suffix": ".pt", "dtype": "float64"}.items():
        if sc[k] != v:
            c = copy.deepcopy(sc)
            c[k] = v
            yield c
    for i, shp in enumerate(sc["shapes"]):
        for a in range(len(shp)):
            if a != sc["dim"] % sc["D"] and shp[a] > 1:
                c = copy.deepcopy(sc)
                c["shapes"][i][a] = shp[a] - 1
                yield c


def sample_repr(sc):
    return {k: v for k, v in sc.items() if k not in ("tape", "salt", "listing_seed")}


GROUP_KEYS = ("oracle", "dtype", "bessel", "grouped", "which")
BUDGET = {"quick": 100000, "thorough": 150000}
WALL_CAP = {"quick": 300, "thorough": 3000}
RULE = (
    "run i derives 1..6 tensors of 1..3 dimensions sharing a feature dimension (any position), dtype, offset/scale, Bessel flag and a choice tape from "
    "sha256(VERIF_SEED/C18/i). module mode: each tensor is cut recursively along tape-chosen non-feature axes, the chunks are delivered to one "
    "MeanVarianceNormalization accumulator in tape-chosen order (optionally with an interim store(delete_stats=False)); command mode: the tensors are files "
    "in a SimFS directory with seed-permuted listing, optional --id2gid groups, --dim/--bessel. One evaluation = one accumulation history. Non-trivial = "
    ">= 2 chunks (module) or >= 2 files (command); distinct = scenario hash."
)
STATE_MEASURE = "distinct (ndim, feature axis, number of chunks, bessel, dtype) / (command, groups, bessel, files) classes"
COMPONENTS = {
    "real": ["pydrobert.torch._feats.MeanVarianceNormalization (accumulate, store, forward), mean_var_norm", "command_line.compute_mvn_stats_for_torch_feat_data_dir, _DirectoryDataset",
             "torch DataLoader num_workers=0"],
    "stub": ["file system: SimFS with permuted listings (command mode)"],
    "reference_model": ["numpy float64 two-pass pooled mean / std"],
}
ASSUMPTIONS = [
    "tolerance follows the input dtype (each chunk is summed in its own dtype before entering the double accumulators): float64 mean rtol 1e-9 / std 1e-7, float32 mean 1e-4 / std 2e-3, scaled by the data magnitude",
    "deltas are judged only on the data-set transform path inside C14; other (dim, time_dim, concatenate, pad_mode) combinations and discounted returns are pure functions and NOT decided here",
    "the command is run with --num-workers 0 here; worker-count independence is C17",
]
