#!/bin/bash
# Runs every seeded change against its own property's check (in scratch worktrees, 3 at a time)
# and writes seeded/DETECTION.md
cd /verif
out=seeded/DETECTION.md
tmp=$(mktemp -d)
ls seeded | grep -E '^C[0-9]+-' | xargs -P 4 -I{} sh -c './tools_seed_try.sh {} > '$tmp'/{}.log 2>&1'
{
echo "# Detection of the seeded changes by the current checks"
echo
echo "Produced by ./tools_seed_all.sh (each change applied in a scratch worktree, its property's quick check run with VERIF_SEED=${VERIF_SEED:-0})."
echo
echo "| change | check result |"
echo "|---|---|"
for f in $(ls $tmp | sort); do n=${f%.log}; r=$(grep -E "exit=" $tmp/$f | tail -1 | sed 's/.*exit=//'); v=$(grep -c "^VIOLATION" $tmp/$f); echo "| $n | exit $r, $v VIOLATION line(s) |"; done
} > $out
rm -rf $tmp
cat $out
