"""Textual mutants for the sensitivity self-test (never written to /repo)."""
from .selftest import Mutant

T = "pydrobert.torch.training"
DL = "pydrobert.torch._dataloaders"
DS = "pydrobert.torch._datasets"

MUTANTS = [
    # ---- C16 -------------------------------------------------------------------------
    Mutant("c16-history-before-checkpoint", "C16", T, [
        ("                    if save_info_first:\n                        self.save_info_to_hist(info)\n                    try:", "                    if True:\n                        self.save_info_to_hist(info)\n                    try:"),
        ("                    if not save_info_first:\n                        self.save_info_to_hist(info)\n\n                    clean_up", "                    if False:\n                        self.save_info_to_hist(info)\n\n                    clean_up"),
    ]),
    Mutant("c16-no-temp-file", "C16", T, [
        ('with tempfile.NamedTemporaryFile("wb", dir=dir_, delete=False) as f:', 'with open(path, "wb") as f:'),
        ("replaces.append((f.name, path))", "pass"),
    ]),
    Mutant("c16-no-refusal", "C16", T, [
        ("if model_pth == best_model_pth:", "if False:"),
        ("elif optim_pth == best_optim_pth:", "elif False:"),
    ]),
    Mutant("c16-cleanup-forgets-old-best", "C16", T, [
        ("                    if last_best != cur_best:\n                        clean_up |=", "                    if False:\n                        clean_up |="),
    ]),
    Mutant("c16-revert-D1-header", "C16", T, [
        ("            ) or not os.path.getsize(self.state_csv_path)\n", "            )\n"),
    ]),
    Mutant("c16-revert-D11-orphan", "C16", T, [
        ("                    pth in recorded and os.path.exists(pth)\n", "                    os.path.exists(pth)\n"),
    ]),
    Mutant("c16-cleanup-before-history", "C16", T, [
        ("                    if not save_info_first:\n                        self.save_info_to_hist(info)\n\n                    clean_up = {last_model_pth, last_optim_pth}",
         "                    clean_up = {last_model_pth, last_optim_pth}"),
        ("                    self._clean_up_files(*tuple(clean_up))\n", "                    self._clean_up_files(*tuple(clean_up))\n                    if not save_info_first:\n                        self.save_info_to_hist(info)\n"),
    ]),
    # ---- C15 -------------------------------------------------------------------------
    Mutant("c15-rlr-reference-is-previous-epoch", "C15", T, [
        ('rlr_epoch = epoch - self.params.reduce_lr_patience + info["rlr_patience_cd"] - 1', "rlr_epoch = epoch - 1"),
    ]),
    Mutant("c15-es-threshold-inclusive", "C15", T, [
        ('max(es_info["val_met"] - val_met, 0) < self.params.early_stopping_threshold', 'max(es_info["val_met"] - val_met, 0) <= self.params.early_stopping_threshold'),
    ]),
    Mutant("c15-no-cooldown", "C15", T, [
        ('info["rlr_resume_cd"] = self.params.reduce_lr_cooldown', 'info["rlr_resume_cd"] = 0'),
    ]),
    Mutant("c15-lr-not-written-to-optimizer", "C15", T, [
        ('                        param_group["lr"] = new_lr\n', '                        pass\n'),
    ]),
    Mutant("c15-burnin-off-by-one", "C15", T, [
        ('"es_resume_cd": self.params.early_stopping_burnin,', '"es_resume_cd": max(self.params.early_stopping_burnin - 1, 0),'),
    ]),
    Mutant("c15-reread-swaps-countdowns", "C15", T, [
        ('"rlr_resume_cd": int(row["rlr_resume_cd"]),', '"rlr_resume_cd": int(row["es_resume_cd"]),'),
    ]),
    Mutant("c15-user-entry-type-dropped", "C15", T, [
        ("self.cache_hist[epoch][name] = type_(row[name])", "self.cache_hist[epoch][name] = row[name]"),
    ]),
    Mutant("c15-best-epoch-prefers-later-tie", "C15", T, [
        ("            if cur < min_met:\n", "            if cur <= min_met:\n"),
    ]),
    # ---- C13 -------------------------------------------------------------------------
    Mutant("c13-drop-uses-total", "C13", DL, [
        ("return islice(ret, self._rank, self.effective_total, self._world_size)", "return islice(ret, self._rank, self.total, self._world_size)"),
    ]),
    Mutant("c13-len-ignores-rank", "C13", DL, [
        ("            self.effective_total - self._rank + self._world_size - 1\n", "            self.effective_total + self._world_size - 1\n"),
    ]),
    Mutant("c13-seed-includes-rank", "C13", DL, [
        ("rs = np.random.RandomState((self.base_seed, epoch))", "rs = np.random.RandomState((self.base_seed + self._rank, epoch))"),
    ]),
    Mutant("c13-global-rng-permutation", "C13", DL, [
        ("shuffled = rs.permutation(self.total)", "shuffled = np.random.permutation(self.total)"),
    ]),
    Mutant("c13-raise-mode-silently-drops", "C13", DL, [
        ('                if on_uneven_distributed == "raise":\n                    raise ValueError(', '                if on_uneven_distributed == "raise!":\n                    raise ValueError('),
        ('                elif on_uneven_distributed == "drop":', '                elif on_uneven_distributed in ("drop", "raise"):'),
    ]),
    Mutant("c13-iter-forgets-epoch-increment-on-restart", "C13", DL, [
        ("        self.epoch = argcheck.is_int(init_epoch, name=\"init_epoch\")", "        self.epoch = max(argcheck.is_int(init_epoch, name=\"init_epoch\") - 1, 0)"),
    ]),
    # ---- C14 -------------------------------------------------------------------------
    Mutant("c14-drop-incomplete-inverted", "C14", DL, [
        ("        if not self.drop_incomplete:\n            for _, batch in sorted(", "        if self.drop_incomplete:\n            for _, batch in sorted("),
    ]),
    Mutant("c14-feat-padding-one", "C14", DL, [
        ("        feats, padding_value=0, batch_first=batch_first", "        feats, padding_value=1, batch_first=batch_first"),
    ]),
    Mutant("c14-lang-ref-padding-zero", "C14", DL, [
        ("    refs = torch.nn.utils.rnn.pad_sequence(\n        refs, padding_value=config.INDEX_PAD_VALUE, batch_first=batch_first\n    )\n    if has_uttids:\n        return refs, ref_sizes, tuple(uttids)",
         "    refs = torch.nn.utils.rnn.pad_sequence(\n        refs, padding_value=0, batch_first=batch_first\n    )\n    if has_uttids:\n        return refs, ref_sizes, tuple(uttids)"),
    ]),
    Mutant("c14-len-rounds-wrong", "C14", DL, [
        ("                len_ += (count + size - 1) // size", "                len_ += count // size + 1"),
    ]),
    Mutant("c14-bucket-boundary-inclusive", "C14", DL, [
        ("sum(int(l > b) for b in len_bounds)", "sum(int(l >= b) for b in len_bounds[:-1])"),
    ]),
    Mutant("c14-dynamic-size-ignores-bucket", "C14", DL, [
        ("bucket2size = dict((j, m // len_bounds[j]) for j in range(num_buckets))", "bucket2size = dict((j, m // len_bounds[-1]) for j in range(num_buckets))"),
    ]),
    Mutant("c14-revert-D5-len-cache", "C14", DL, [
        ("if self._len is None or self._len[0] != epoch:", "if self._len is None:"),
    ]),
    Mutant("c14-window-left-pad-zero", "C14", DS, [
        ("            window[:left_pad] = feat[0]", "            window[:left_pad] = 0"),
    ]),
    Mutant("c14-sort-ascending", "C14", DL, [
        ("        seq = sorted(seq, key=lambda x: x[0].size(0), reverse=True)\n    seq = list(zip(*seq))", "        seq = sorted(seq, key=lambda x: x[0].size(0))\n    seq = list(zip(*seq))"),
    ]),
    Mutant("c14-revert-D6-empty-ref", "C14", DS, [
        ("            ref = torch.cat([ref.new_full((1,), sos), ref], 0)", "            ref = torch.cat([torch.full_like(ref[:1], sos), ref], 0)"),
    ]),
    Mutant("c14-revert-D17-lang-bucket-len", "C14", DL, [
        ("((x if isinstance(x, torch.Tensor) else x[0]).size(0), i)", "(x[0].size(0), i)"),
    ]),
    Mutant("c14-ali-sizes-from-refs", "C14", DL, [
        ("    feat_sizes = torch.tensor([x.size(0) for x in feats])", "    feat_sizes = torch.tensor([max(x.size(0) - 1, 1) for x in feats])"),
    ]),
]
