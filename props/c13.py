"""C13: epoch samplers are reproducible and split data exactly across processes."""
import copy

import torch

from simkit.core import HarnessError, RunResult
from simkit.simdist import SimDist, perturb_global_rngs

ID = "C13"
LEVEL = {"quick": "exploration", "thorough": "exploration"}
MODES = ["raise", "drop", "uneven", "ignore"]


def generate(rng, tier, index):
    W = rng.choice([1, 2, 2, 3, 3, 4])
    N = rng.choice([0, 1, 2, 3, W, W + 1, 2 * W, 2 * W + 1, rng.randrange(0, 41), rng.randrange(0, 41), rng.choice([100, 257, 1000, 1023])])
    if rng.random() < 0.01:
        N = rng.choice([32767, 32768, 32769, 40000, 65535, 65536, 65537, 70001])  # around the limits of 16-bit index types
    if rng.random() < 0.01:
        import sys

        return {"huge": True, "N": rng.choice([2**53 + 1, 10**17 + 7, 2**60 + 1, 2**62 + 3]), "W": W, "mode": rng.choice(MODES), "kind": "sequential", "base_seed": None,
                "torch_seed": 1, "distributed": True, "init_epoch": [0] * W, "ops": []}
    sc = {
        "N": N,
        "W": W,
        "mode": rng.choice(MODES),
        "kind": rng.choice(["random", "random", "sequential"]),
        "base_seed": rng.choice([None, rng.randrange(0, 1000), rng.randrange(0, 2**31 - 1)]),
        "torch_seed": rng.randrange(1, 10000),
        "distributed": rng.random() < 0.9,
        "init_epoch": [rng.choice([0, 0, 0, 1, 5]) for _ in range(W)],
    }
    ops = []
    for _ in range(rng.randrange(2, 16)):
        r = rng.randrange(W)
        k = rng.random()
        if k < 0.36:
            ops.append(["step", r])
        elif k < 0.43:
            ops.append(["open", r])  # iter(sampler), consumed later: other operations run in between
        elif k < 0.47:
            ops.append(["openpeek", r, rng.randrange(0, 8)])
        elif k < 0.52:
            ops.append(["drain", r, rng.choice([None, None, rng.randrange(0, 5)])])  # None: to the end; k: k items, then abandoned
        elif k < 0.62:
            ops.append(["restart", r])
        elif k < 0.74:
            ops.append(["jump", r, rng.choice([rng.randrange(0, 8), rng.randrange(0, 8), 1000, 2**31 - 2])])
        elif k < 0.86:
            ops.append(["peek", r, rng.randrange(0, 8)])
        else:
            ops.append(["perturb", rng.randrange(1, 1000)])
    # appended after the fact (so that older scenarios keep their derivation): the sampler object is copied
    # or pickled mid-history, and len() is asked at arbitrary points
    for _ in range(rng.choice([0, 0, 1, 2])):
        ops.insert(rng.randrange(len(ops) + 1), [rng.choice(["clone", "len", "stepx", "stepx"]), rng.randrange(W), rng.choice(["pickle", "deepcopy", "copy"])])
    sc["ops"] = ops
    return sc


def make(sc, init_epoch, seed):
    from pydrobert.torch.data import EpochRandomSampler, EpochSequentialSampler

    ds = range(sc["N"])
    # the mode as it arrives from a configuration file or a command line: an equal string, not the literal's object
    mode = "".join(list(sc["mode"]))
    if sc["kind"] == "random":
        return EpochRandomSampler(ds, init_epoch, seed, mode)
    return EpochSequentialSampler(ds, init_epoch, mode)


def execute_huge(sc):
    """Sizes far beyond what can be enumerated (2**53 and up): len() against exact integer
    arithmetic and the first indices of the sequential sampler; nothing is drained."""
    import itertools

    res = RunResult()
    sd = SimDist()
    N, W, mode = sc["N"], sc["W"], sc["mode"]
    with sd.patched():
        for r in range(W):
            with sd.node(r, W):
                try:
                    s = make(dict(sc, kind="sequential"), 0, None)
                except Exception as e:  # noqa
                    if mode == "raise" and N % W:
                        res.bump("probe.raise_on_uneven")
                        res.nontrivial = True
                        return res
                    res.violate("construct.unexpected-raise", f"N={N} W={W} mode={mode}: construction raised {type(e).__name__}: {e}")
                    return res
                eff = N - N % W if mode == "drop" else N
                want = len(range(r, eff, W)) if mode != "ignore" else N
                try:
                    got = len(s)
                except Exception as e:  # noqa
                    res.violate("len.raised", f"len() of a sampler over {N} items raised {type(e).__name__}: {e}", mode=mode)
                    return res
                if got != want:
                    res.violate("len.mismatch", f"rank {r}/{W} over N={N} ({mode}): len() = {got}, the sampler yields {want} indices", mode=mode)
                    return res
                try:
                    first = [int(x) for x in itertools.islice(iter(s), 3)]
                except (MemoryError, ValueError, OverflowError):
                    # an implementation that materialises the epoch cannot be asked for 2**53 indices; not judged
                    res.bump("probe.huge_iteration_not_judged")
                    continue
                exp = list(itertools.islice(range(r, eff, W) if mode != "ignore" else range(N), 3))
                if first != exp:
                    res.violate("split.sequential-stride", f"rank {r}/{W} over N={N}: first indices {first}, expected {exp}", mode=mode)
                    return res
                res.steps += 1
    res.log.add("huge", N, W, mode)
    res.nontrivial = True
    res.bump("probe.huge_size")
    return res


def execute(sc):
    if sc.get("huge"):
        return execute_huge(sc)
    res = RunResult()
    sd = SimDist()
    N, W, mode = sc["N"], sc["W"], sc["mode"]
    distributed = sc["distributed"]
    world = W if distributed else 1
    table = {}  # (rank, epoch) -> list of lists

    def ctx(r):
        return sd.node(r if distributed else None, W if distributed else None)

    with sd.patched():
        samplers = []
        should_raise = distributed and mode == "raise" and N % W != 0
        for r in range(world):
            with ctx(r):
                torch.manual_seed(sc["torch_seed"])  # what a real job does before building loaders
                try:
                    s = make(sc, sc["init_epoch"][r], sc["base_seed"])
                except Exception as e:  # noqa (the property says "raises", not what)
                    if should_raise:
                        res.bump("probe.raise_on_uneven")
                        res.nontrivial = True
                        res.log.add("raise", r)
                        continue
                    res.violate("construct.unexpected-raise", f"N={N} W={W} mode={mode}: construction raised {e}")
                    return res
                if should_raise:
                    res.violate("construct.no-raise", f"N={N} W={W} mode=raise: construction succeeded although {N} % {W} != 0", mode=mode)
                    return res
                samplers.append(s)
        if should_raise:
            return res
        seed = getattr(samplers[0], "base_seed", None)
        if sc["kind"] == "random":
            if any(s.base_seed != seed for s in samplers):
                res.violate("seed.differs", "ranks seeded from the same torch seed hold different base seeds")
                return res
            if sc["base_seed"] is not None and seed != sc["base_seed"]:
                res.violate("seed.not-kept", f"base_seed {sc['base_seed']} became {seed}")
                return res
        held = {}  # rank -> [(epoch, iterator, expected length or None)]
        lens = {}  # rank -> first len() seen
        ops = list(sc["ops"]) + [["drain", r, None] for r in range(world) for _ in range(4)]
        for op in ops:
            r = op[1] % world if op[0] != "perturb" else None
            if op[0] == "open":
                with ctx(r):
                    s = samplers[r]
                    e = s.epoch
                    L = len(s)
                    it = iter(s)
                    # an iterator may claim its epoch when it is made (epoch already advanced) or when it
                    # is first used (the property does not say which): e is then decided at drain time
                    held.setdefault(r, []).append((e if s.epoch != e else ("lazy", e, s), it, L))
                res.bump("fault.iterator_held_open")
            elif op[0] == "openpeek":
                with ctx(r):
                    held.setdefault(r, []).append((op[2], iter(samplers[r].get_samples_for_epoch(op[2])), None))
                res.bump("fault.iterator_held_open")
            elif op[0] == "drain":
                if not held.get(r):
                    continue
                e, it, L = held[r].pop(0)
                with ctx(r):
                    if isinstance(e, tuple):
                        # claims its epoch at first use: the epoch the sampler stands at now
                        res.bump("probe.iterator_claims_epoch_at_first_use")
                        e = e[2].epoch
                    if op[2] is None:
                        lst = [int(x) for x in it]
                        if L is not None and L != len(lst):
                            res.violate("len.mismatch", f"rank {r} epoch {e}: len() = {L} but {len(lst)} indices yielded by an iterator that was held open", mode=mode)
                            return res
                        table.setdefault((r, e), []).append(lst)
                        res.log.add("drain", r, e, lst)
                        res.steps += 1
                    else:
                        part = []
                        for x in it:
                            if len(part) >= op[2]:
                                break
                            part.append(int(x))
                        table.setdefault((r, e, "prefix"), []).append(part)
                        res.bump("fault.iterator_abandoned")
            elif op[0] == "stepx":
                # a consumer that takes exactly len() indices and never asks for one more (zip(range(len(s)), s),
                # islice): that is a complete pass over the epoch, so the next iteration must be the next epoch
                import itertools

                with ctx(r):
                    s = samplers[r]
                    e = s.epoch
                    L = len(s)
                    if L == 0:
                        continue  # nothing is ever requested of the iterator: whether it claimed an epoch is not defined
                    lst = [int(x) for x in itertools.islice(iter(s), L)]
                    if len(lst) != L:
                        res.violate("len.mismatch", f"rank {r} epoch {e}: len() = {L} but only {len(lst)} indices yielded (N={N}, W={world}, mode={mode})", mode=mode)
                        return res
                    if s.epoch != e + 1:
                        res.violate("step.epoch-advance", f"a consumer took exactly len() = {L} indices of epoch {e} and the sampler stands at epoch {s.epoch}: the next iteration does not yield epoch {e + 1}", exact=True)
                        return res
                table.setdefault((r, e), []).append(lst)
                res.steps += 1
                res.bump("probe.exact_length_consumer")
                res.log.add("stepx", r, e, lst)
            elif op[0] == "step":
                with ctx(r):
                    s = samplers[r]
                    e = s.epoch
                    L = len(s)
                    if lens.setdefault(r, L) != L:
                        res.violate("len.mismatch", f"rank {r}: len() = {L} now, {lens[r]} earlier in the same history (N={N}, W={world}, mode={mode})", mode=mode)
                        return res
                    lst = [int(x) for x in iter(s)]
                    if s.epoch != e + 1:
                        res.violate("step.epoch-advance", f"epoch went from {e} to {s.epoch} after one iteration")
                        return res
                if L != len(lst):
                    res.violate("len.mismatch", f"rank {r} epoch {e}: len() = {L} but {len(lst)} indices yielded (N={N}, W={world}, mode={mode})", mode=mode)
                    return res
                table.setdefault((r, e), []).append(lst)
                res.steps += 1
                res.log.add("step", r, e, lst)
            elif op[0] == "restart":
                with ctx(r):
                    e = samplers[r].epoch
                    samplers[r] = make(sc, e, seed)
                res.bump("fault.rank_restart")
                res.log.add("restart", r, e)
            elif op[0] == "jump":
                samplers[r].epoch = op[2]
                res.bump("fault.epoch_jump")
            elif op[0] == "clone":
                import pickle

                with ctx(r):
                    e = samplers[r].epoch
                    try:
                        samplers[r] = {"pickle": lambda x: pickle.loads(pickle.dumps(x)), "deepcopy": copy.deepcopy, "copy": copy.copy}[op[2]](samplers[r])
                    except Exception as err:  # noqa
                        res.violate("clone.raised", f"{op[2]} of a sampler raised {type(err).__name__}: {err}", kind=sc["kind"])
                        return res
                    if samplers[r].epoch != e:
                        res.violate("clone.epoch", f"{op[2]} of a sampler standing at epoch {e} stands at epoch {samplers[r].epoch}", kind=sc["kind"])
                        return res
                res.bump("fault.sampler_copied")
            elif op[0] == "len":
                with ctx(r):
                    L = len(samplers[r])
                want_len = lens.setdefault(r, L)
                if L != want_len:
                    res.violate("len.mismatch", f"rank {r}: len() = {L} now, {want_len} earlier in the same history (N={N}, W={world}, mode={mode})", mode=mode)
                    return res
                res.bump("probe.len_mid_history")
            elif op[0] == "peek":
                with ctx(r):
                    e0 = samplers[r].epoch
                    lst = [int(x) for x in samplers[r].get_samples_for_epoch(op[2])]
                    if samplers[r].epoch != e0:
                        res.violate("peek.disturbs", f"get_samples_for_epoch({op[2]}) moved the epoch from {e0} to {samplers[r].epoch}")
                        return res
                table.setdefault((r, op[2]), []).append(lst)
                res.bump("probe.peek")
            elif op[0] == "perturb":
                perturb_global_rngs(op[1])
                res.bump("fault.rng_perturbed")
        # ---- history oracle ------------------------------------------------------------
        prefixes = {k: v for k, v in table.items() if len(k) == 3}
        table = {k: v for k, v in table.items() if len(k) == 2}
        for (r, e, _) in prefixes:
            table.setdefault((r, e), [])
        epochs = sorted({e for (_, e) in table})
        for e in epochs:
            # fill in: every rank, reached by *starting at* that epoch
            lists = {}
            for r in range(world):
                with ctx(r):
                    fresh = make(sc, e, seed)
                    lst = [int(x) for x in iter(fresh)]
                    full_r = [int(x) for x in fresh.get_samples_for_epoch_ignoring_distributed(e)]
                for part in prefixes.get((r, e, "prefix"), []):
                    if part != lst[: len(part)]:
                        res.violate("repro.differs", f"rank {r} epoch {e}: the first {len(part)} indices of an abandoned iterator {part} are not a prefix of the epoch's order {lst}", kind=sc["kind"])
                        return res
                for other in table.get((r, e), []):
                    if other != lst:
                        res.violate("repro.differs", f"rank {r} epoch {e}: list reached by iterating differs from the one reached by starting at the epoch", kind=sc["kind"])
                        return res
                lists[r] = lst
                if r == 0:
                    full = full_r
                elif full_r != full:
                    res.violate("repro.full-order-differs-across-ranks", f"epoch {e}: the undistributed order differs between rank 0 and rank {r}")
                    return res
            with sd.node(None, None):
                obs = make(sc, e, seed)
                full_obs = [int(x) for x in obs.get_samples_for_epoch_ignoring_distributed(e)]
                alone = [int(x) for x in iter(obs)]
            if sorted(full_obs) != list(range(N)):
                res.violate("order.not-a-permutation", f"epoch {e}: undistributed order is not a permutation of range({N})")
                return res
            if alone != full_obs:
                res.violate("order.undistributed", f"epoch {e}: an undistributed sampler does not yield the full order")
                return res
            if full_obs != full:
                res.violate("repro.world-dependent", f"epoch {e}: the epoch order depends on the world size (W={world} vs undistributed)")
                return res
            if sc["kind"] == "sequential" and full != list(range(N)):
                res.violate("order.sequential", f"sequential sampler epoch order is {full}")
                return res
            if mode == "ignore" or not distributed:
                for r in range(world):
                    if lists[r] != full:
                        res.violate("ignore.not-full", f"epoch {e} rank {r}: mode ignore must yield the full epoch", mode=mode)
                        return res
                continue
            allv = [x for r in range(world) for x in lists[r]]
            if len(set(allv)) != len(allv):
                res.violate("split.overlap", f"epoch {e}: per-rank lists overlap or repeat (N={N}, W={world}, mode={mode})", mode=mode)
                return res
            if mode == "drop":
                want = N - N % world
                if len(allv) != want or len({len(lists[r]) for r in range(world)}) > 1:
                    res.violate("split.drop-counts", f"epoch {e}: drop mode yields {[len(lists[r]) for r in range(world)]} (N={N}, W={world})", mode=mode)
                    return res
                if not set(allv) <= set(range(N)):
                    res.violate("split.range", f"epoch {e}: indices outside range")
                    return res
            else:
                if sorted(allv) != list(range(N)):
                    res.violate("split.cover", f"epoch {e}: ranks together yield {len(allv)} of {N} indices (mode={mode}, W={world})", mode=mode)
                    return res
            if sc["kind"] == "sequential":
                for r in range(world):
                    eff = N - N % world if mode == "drop" else N
                    if lists[r] != list(range(r, eff, world)):
                        res.violate("split.sequential-stride", f"epoch {e} rank {r}: expected [r, r+W, ...], got {lists[r]}")
                        return res
            res.states.add(str((N % world, mode, sc["kind"], len(table))))
    res.nontrivial = N >= 2 and len(epochs) >= 1
    return res


def shrink_candidates(sc):
    for i in range(len(sc["ops"])):
        c = copy.deepcopy(sc)
        del c["ops"][i]
        yield c
    for n in (0, 1, 2, 3, sc["N"] // 2, sc["N"] - 1):
        if 0 <= n < sc["N"]:
            c = copy.deepcopy(sc)
            c["N"] = n
            yield c
    if sc["W"] > 1:
        c = copy.deepcopy(sc)
        c["W"] -= 1
        c["init_epoch"] = c["init_epoch"][: c["W"]]
        yield c
    if any(sc["init_epoch"]):
        c = copy.deepcopy(sc)
        c["init_epoch"] = [0] * sc["W"]
        yield c
    if sc["base_seed"] not in (None, 0):
        c = copy.deepcopy(sc)
        c["base_seed"] = 0
        yield c


def sample_repr(sc):
    return sc


GROUP_KEYS = ("oracle", "mode", "kind")
BUDGET = {"quick": 80000, "thorough": 400000}
WALL_CAP = {"quick": 240, "thorough": 3000}
RULE = (
    "run i derives (N in 0..40 biased to multiples of W and W+-1, W in 1..4, uneven mode, sampler kind, base seed given/unset, per-rank init_epoch, "
    "distributed or not) and a 2..15-step interleaving of per-rank operations STEP / OPEN + DRAIN (an epoch iterator held open while other operations run, "
    "drained later fully or abandoned after k items) / RESTART (rank crash: new sampler at its next epoch) / JUMP (epoch setter) / PEEK / PERTURB_RNG from sha256(VERIF_SEED/C13/i). One evaluation = one interleaving executed under SimDist, then the history oracle over "
    "the (rank, epoch) -> list table. Non-trivial = N >= 2 and at least one epoch recorded (or a mandated raise observed); distinct = scenario hash."
)
STATE_MEASURE = "distinct (N mod W, mode, kind, table size) classes checked by the partition oracle"
COMPONENTS = {
    "real": ["pydrobert.torch._dataloaders.EpochRandomSampler / EpochSequentialSampler / AbstractEpochSampler", "numpy RandomState", "torch global RNG"],
    "stub": ["torch.distributed.is_available/is_initialized/get_rank/get_world_size (simkit.simdist.SimDist; no process group, no collectives)"],
}
ASSUMPTIONS = [
    "ranks of a real job seed torch identically before building samplers (an unset base_seed is drawn from the torch generator)",
    "all ranks live in one interpreter and share the global RNGs; PERTURB_RNG models everything else a process does with them",
    "rank-strided assignment [r, r+W, ...] is demanded only of the sequential sampler, whose documentation states it",
]
