"""Determinism and sensitivity self-tests (DESIGN.md section 8)."""
import importlib
import json
import os
import subprocess
import sys
import time

from . import runner
from .core import HarnessError

HASH_SENSITIVE = {"C16", "C15"}  # set-iteration order of path strings in training.py's clean-up


def available():
    out = []
    for pid, mod in sorted(runner.PROPS.items()):
        if os.path.exists(os.path.join(runner.VERIF, mod.replace(".", "/") + ".py")):
            out.append(pid)
    return out


def batch_digests(pid, seed, n, workers):
    merged, truncated, _ = runner.run_batch(pid, "quick", seed, n, workers, wall_cap=600)
    if merged["harness_errors"]:
        raise HarnessError(f"{pid}: harness errors in determinism batch: {merged['harness_errors'][0]}")
    return merged["digests"]


def fresh(pid, seed, n, workers, hashseed):
    env = dict(os.environ, VERIF_SEED=str(seed), VERIF_HASHSEED=str(hashseed), PYTHONHASHSEED=str(hashseed))
    cmd = [sys.executable, os.path.join(runner.VERIF, "check.py"), "digests", pid, "--runs", str(n), "--workers", str(workers)]
    p = subprocess.run(cmd, capture_output=True, text=True, env=env, timeout=1800)
    if p.returncode != 0:
        raise HarnessError(f"digest subprocess failed for {pid}: {p.stdout[-800:]} {p.stderr[-800:]}")
    line = [l for l in p.stdout.splitlines() if l.startswith("DIGESTS ")][-1]
    return json.loads(line[len("DIGESTS ") :])


def determinism(seed, quick=True, only=None):
    n = 20 if quick else 200
    bad = 0
    report = {}
    t0 = time.time()
    for pid in available():
        if only and pid not in only:
            continue
        a = batch_digests(pid, seed, n, 1)
        b = batch_digests(pid, seed, n, 1)
        c = [tuple(x) for x in fresh(pid, seed, n, 16, 0)]
        entry = {"runs": n, "same_process_twice": a == b, "fresh_interpreter_16_workers": [tuple(x) for x in a] == c}
        if not quick:
            d = [tuple(x) for x in fresh(pid, seed, n, 4, 0)]
            entry["fresh_interpreter_4_workers"] = [tuple(x) for x in a] == d
            e = [tuple(x) for x in fresh(pid, seed, n, 16, 7)]
            entry["other_pythonhashseed_equal"] = [tuple(x) for x in a] == e
            if pid not in HASH_SENSITIVE and not entry["other_pythonhashseed_equal"]:
                bad += 1
        ok = entry["same_process_twice"] and entry["fresh_interpreter_16_workers"] and entry.get("fresh_interpreter_4_workers", True)
        if not ok:
            bad += 1
            diff = [i for (i, x), (_, y) in zip(a, c) if x != y][:5]
            entry["first_diverging_runs"] = diff
        report[pid] = entry
        print(f"determinism {pid}: {entry}")
        sys.stdout.flush()
    os.makedirs(runner.EVIDENCE, exist_ok=True)
    with open(os.path.join(runner.EVIDENCE, "determinism-quick.json" if quick else "determinism.json"), "w") as f:
        json.dump({"seed": seed, "report": report, "wall_s": round(time.time() - t0, 1)}, f, indent=1)
    if bad:
        print(f"HARNESS-ERROR determinism self-test failed for {bad} comparisons")
        return 2
    print(f"selftest-determinism ok ({len(report)} checks, {time.time() - t0:.0f}s)")
    return 0


# ---------------------------------------------------------------------------------------
# sensitivity: textual mutants applied to an in-memory copy of a module (no edit of /repo)
# ---------------------------------------------------------------------------------------
class Mutant:
    def __init__(self, name, pid, module, edits, runs=None):
        self.name, self.pid, self.module, self.edits, self.runs = name, pid, module, edits, runs


def _functions_of(ns, modname):
    """name -> plain function objects defined by the module (top level and in classes)."""
    import inspect

    out = {}
    for name, obj in list(ns.items()):
        if inspect.isfunction(obj) and obj.__module__ == modname:
            while inspect.isfunction(getattr(obj, "__wrapped__", None)):  # script_if_tracing etc.
                obj = obj.__wrapped__
            out[name] = obj
        elif inspect.isclass(obj) and obj.__module__ == modname:
            for attr, v in list(vars(obj).items()):
                f = v
                if isinstance(v, (staticmethod, classmethod)):
                    f = v.__func__
                elif isinstance(v, property):
                    for tag, pf in (("fget", v.fget), ("fset", v.fset)):
                        if inspect.isfunction(pf):
                            out[f"{name}.{attr}.{tag}"] = pf
                    continue
                if inspect.isfunction(f):
                    out[f"{name}.{attr}"] = f
    return out


def apply_source(modname, src):
    """Swaps the code objects of the module's functions for those compiled from ``src``.

    Classes and function objects keep their identity (other modules hold references to
    them), only behaviour changes.  Returns the list of (function, old code, old
    defaults) that were changed, for ``restore``."""
    mod = importlib.import_module(modname)
    ns = dict(mod.__dict__)
    import warnings

    with warnings.catch_warnings():
        warnings.simplefilter("ignore")
        exec(compile(src, mod.__file__, "exec"), ns)
    old = _functions_of(mod.__dict__, modname)
    new = _functions_of(ns, modname)
    changed = []
    for name, nf in new.items():
        of = old.get(name)
        if of is None or of is nf:
            continue
        oc, nc = of.__code__, nf.__code__
        if oc.co_code != nc.co_code or oc.co_consts != nc.co_consts or oc.co_names != nc.co_names or oc.co_varnames != nc.co_varnames:
            if oc.co_freevars != nc.co_freevars:
                raise HarnessError(f"mutant changes closure of {name}")
            changed.append((of, oc, of.__defaults__))
            of.__code__ = nc
            of.__defaults__ = nf.__defaults__
    return changed


def restore(changed):
    for f, code, defaults in changed:
        f.__code__ = code
        f.__defaults__ = defaults


def sensitivity(seed, only=None):
    from .mutants import MUTANTS

    results = []
    known = runner.load_known()
    t0 = time.time()
    for m in MUTANTS:
        if only and m.pid not in only and m.name not in only:
            continue
        if m.pid not in available():
            continue
        mod = importlib.import_module(m.module)
        with open(mod.__file__) as f:
            orig = f.read()
        src = orig
        ok_edit = True
        for old, new in m.edits:
            if src.count(old) < 1:
                ok_edit = False
            src = src.replace(old, new)
        if not ok_edit:
            results.append({"mutant": m.name, "property": m.pid, "status": "edit-does-not-apply"})
            print(f"sensitivity {m.name}: edit does not apply")
            continue
        prop = runner.load_prop(m.pid)
        n = m.runs or max(40, prop.BUDGET["quick"] // 4)
        changed = []
        try:
            changed = apply_source(m.module, src)
            if hasattr(prop, "reset_caches"):
                prop.reset_caches()
            if not changed:
                results.append({"mutant": m.name, "property": m.pid, "status": "edit-changes-no-function"})
                print(f"sensitivity {m.name}: edit changes no plain function (decorated?)")
                continue
            merged, _, wall = runner.run_batch(m.pid, "quick", seed, n, min(16, os.cpu_count() or 1), wall_cap=300)
        finally:
            restore(changed)
            if hasattr(prop, "reset_caches"):
                prop.reset_caches()
        unknown = [f for f in merged["failures"] if runner.match_known(known, m.pid, f["violations"][0]) is None]
        oracles = sorted({f["violations"][0]["oracle"] for f in unknown})
        status = "caught" if unknown else ("harness-error" if merged["harness_errors"] else "MISSED")
        results.append({"mutant": m.name, "property": m.pid, "status": status, "failing_runs": len(unknown), "oracles": oracles, "runs": n, "wall_s": round(wall, 1),
                        "harness_errors": len(merged["harness_errors"])})
        print(f"sensitivity {m.name} [{m.pid}]: {status} ({len(unknown)} failing evaluations; oracles {oracles[:4]})")
        sys.stdout.flush()
    os.makedirs(runner.EVIDENCE, exist_ok=True)
    with open(os.path.join(runner.EVIDENCE, "sensitivity.json"), "w") as f:
        json.dump({"seed": seed, "results": results, "wall_s": round(time.time() - t0, 1)}, f, indent=1)
    missed = [r for r in results if r["status"] != "caught"]
    print(f"selftest-sensitivity: {len(results) - len(missed)}/{len(results)} mutants caught")
    return 0 if not missed else 3


# ---------------------------------------------------------------------------------------
# reach: which documented command-line flags do the command pipelines ever pass?
# ---------------------------------------------------------------------------------------
def reach(seed, n=1500):
    """Informational: runs n scenarios of C17 and C10 (and n/2 of C12, C18) in this process with
    argparse instrumented and reports, per console command, the options its parser defines that
    no scenario passed.  C17's quantifier is 'every documented flag combination that is mutually
    compatible': a flag that is never passed is a hole in the workload."""
    import argparse
    import collections
    import warnings

    from .core import derive_rng
    from . import runner

    defined = collections.defaultdict(set)
    used = collections.defaultdict(collections.Counter)
    orig = argparse.ArgumentParser.parse_args

    def parse_args(self, args=None, namespace=None):
        key = (self.description or self.prog).strip().split("\n")[0][:70]
        for a in self._actions:
            for o in a.option_strings:
                if o.startswith("--") and o != "--help":
                    defined[key].add(o)
        for x in args or []:
            x = str(x)
            if x.startswith("--"):
                used[key][x.split("=")[0]] += 1
        return orig(self, args, namespace)

    argparse.ArgumentParser.parse_args = parse_args
    try:
        with warnings.catch_warnings():
            warnings.simplefilter("ignore")
            for pid, count in (("C17", n), ("C10", n), ("C12", n // 2), ("C18", n // 2)):
                prop = runner.load_prop(pid)
                for i in range(count):
                    prop.execute(prop.generate(derive_rng(seed, pid, i), "quick", i))
    finally:
        argparse.ArgumentParser.parse_args = orig
    rows = []
    missing = 0
    for key in sorted(defined):
        never = sorted(o for o in defined[key] if o not in used[key])
        missing += len(never)
        rows.append({"command": key, "options_defined": len(defined[key]), "options_passed": {k: v for k, v in sorted(used[key].items())}, "never_passed": never})
        print(f"reach {key[:60]!r}: {len(defined[key]) - len(never)}/{len(defined[key])} options passed" + (f"; never: {never}" if never else ""))
    rep = {"seed": seed, "scenarios": {"C17": n, "C10": n, "C12": n // 2, "C18": n // 2}, "commands": rows, "options_never_passed": missing,
           "note": "informational: console commands are keyed by the first line of their parser description (the two length-moment printers share one)"}
    os.makedirs(runner.EVIDENCE, exist_ok=True)
    with open(os.path.join(runner.EVIDENCE, "reach.json"), "w") as f:
        json.dump(rep, f, indent=1)
    print(f"selftest-reach: {len(rows)} commands, {missing} documented options never passed")
    return 0
