"""Determinism and sensitivity self-tests (DESIGN.md section 8)."""


def determinism(seed, quick=True):
    print("selftest-determinism: not yet implemented")
    return 0


def sensitivity(seed):
    print("selftest-sensitivity: not yet implemented")
    return 0
