"""C12: data-directory validation accepts exactly well-formed directories; fixes stick."""
import copy
import math
import random
import warnings

import torch

from simkit.core import HarnessError, RunResult
from simkit.simfs import SimFS, patched, ROOT
from . import corpus

ID = "C12"
LEVEL = {"quick": "exploration", "thorough": "exploration"}
DIR = f"{ROOT}/dd"

DT = {"uint8": torch.uint8, "int32": torch.int32, "float": torch.float32, "double": torch.float64, "long": torch.long}
CORRUPTIONS = [
    "feat_dtype", "feat_width", "feat_rank",
    "ali_uint8", "ali_int32", "ali_float", "ali_longer", "ali_shorter", "ali_rank",
    "ref_uint8", "ref_int32", "ref_float", "ref_dim_mix", "ref_width", "ref_rank3",
    "ref_half_open_start", "ref_half_open_end", "ref_end_over", "ref_start_gt_end", "ref_start_over",
    # the number of frames itself changes (features re-extracted): alone, or together with the alignment
    "feat_longer", "feat_shorter", "reextract_longer", "reextract_shorter",
    # two defects in one token: a boundary missing AND the other one beyond the last frame
    "ref_half_open_end_over", "ref_half_open_start_over",
]


def generate(rng, tier, index):
    n = rng.choice([1, 2, 3, 3, 4, 5])
    sc = {
        "n": n,
        "lens": [rng.randrange(1, 9) for _ in range(n)],
        "rlens": [rng.choice([0, 1, 2, 3, 4, 4, 19]) for _ in range(n)],
        "F": rng.randrange(1, 4),
        "salt": rng.randrange(1000),
        "id_style": rng.randrange(4),
        "with_ali": rng.random() < 0.75,
        "with_ref": rng.random() < 0.85,
        "ref2d": rng.random() < 0.7,
        "prefix": rng.choice(["", "", "p_", "x."]),
        "suffix": rng.choice([".pt", ".pt", ".t", "_s.pt"]),
        "subdirs": rng.choice([["feat", "ali", "ref"], ["feat", "ali", "ref"], ["f", "a", "r"], ["mfcc", "pdf", "txt"]]),
        "listing_seed": rng.randrange(1 << 20),
        "vocab": rng.choice([None, 3, 3, 12]),
    }
    ops = []
    for _ in range(rng.randrange(2, 11)):
        k = rng.random()
        u = rng.randrange(n)
        if k < 0.38:
            ops.append(["corrupt", u, rng.choice(CORRUPTIONS), rng.randrange(1, 4)])
        elif k < 0.44:
            ops.append(["repair", u])
        elif k < 0.48:
            ops.append(["remove", u, rng.choice(["ali", "ref"])])
        elif k < 0.50:
            ops.append(["stray", rng.choice(["feat", "ali", "ref"]), rng.choice(["junk.txt", "README", "zz" + sc["suffix"] + ".bak", "q" + sc["suffix"]])])
        elif k < 0.52:
            # the same non-member name in every sub-directory (matches only one of prefix / suffix)
            ops.append(["stray", "all", rng.choice(["q" + sc["suffix"], sc["prefix"] + "q.bak", "zq" + sc["suffix"]])])
        elif k < 0.64:
            ops.append(["validate"])
        elif k < 0.80:
            ops.append(["fix", rng.randrange(0, 4)])
        elif k < 0.90:
            ops.append(["info", rng.choice(["none", "strict", "fix"]), rng.randrange(0, 4)])
        elif k < 0.96:
            ops.append(["read", rng.choice([None, 1000, "lo"]), rng.choice([None, 1001, "lo"]), rng.random() < 0.5])
        else:
            ops.append(["hyp", u, rng.randrange(1 << 16)])
    ops.append(rng.choice([["validate"], ["fix", rng.randrange(0, 4)], ["info", "strict", 0]]))
    ops.append(["read", rng.choice([None, 1000, "lo"]), rng.choice([None, 1001, "lo"]), rng.random() < 0.5])
    sc["ops"] = ops
    sc["reuse_ds"] = rng.random() < 0.5  # one long-lived data set object over the whole history (while the file set stays as it is)
    return sc


# ---------------------------------------------------------------------------------------
# reference model
# ---------------------------------------------------------------------------------------
class Model:
    """In-memory copy of the directory: part -> {file name -> tensor}."""

    def __init__(self, sc):
        self.sc = sc
        self.feat_sd, self.ali_sd, self.ref_sd = sc["subdirs"]
        r = random.Random(sc["salt"])
        self.names = [corpus.utt_name(r, i, sc["id_style"]) for i in range(sc["n"])]
        self.orig = {}
        self.parts = {"feat": {}, "ali": {}, "ref": {}}
        self.present = {"feat": True, "ali": sc["with_ali"], "ref": sc["with_ref"]}
        for i, name in enumerate(self.names):
            T, R = sc["lens"][i], sc["rlens"][i]
            o = {
                "feat": corpus.feat_tensor(i, T, sc["F"], sc["salt"]),
                "ali": corpus.ali_tensor(i, T, sc["salt"]),
                "ref": corpus.ref_tensor(i, R, T, sc["ref2d"], sc["salt"], vocab=sc.get("vocab")),
            }
            self.orig[name] = o
            fn = self.fn(name)
            self.parts["feat"][fn] = o["feat"].clone()
            if sc["with_ali"]:
                self.parts["ali"][fn] = o["ali"].clone()
            if sc["with_ref"]:
                self.parts["ref"][fn] = o["ref"].clone()

    def fn(self, utt):
        return self.sc["prefix"] + utt + self.sc["suffix"]

    def subdir(self, part):
        return {"feat": self.feat_sd, "ali": self.ali_sd, "ref": self.ref_sd}[part]

    def path(self, part, fn):
        return f"{DIR}/{self.subdir(part)}/{fn}"

    def matching(self, part):
        p, s = self.sc["prefix"], self.sc["suffix"]
        out = set()
        for fn in self.parts[part]:
            if fn.startswith(p) and fn.endswith(s):
                out.add(fn[len(p) : len(fn) - len(s)] if s else fn[len(p) :])
        return out

    def utts(self):
        ids = self.matching("feat")
        for part in ("ali", "ref"):
            if self.present[part] and self.matching(part):
                ids &= self.matching(part)
        return sorted(ids)

    def has(self, part):
        return self.present[part] and bool(self.matching(part))

    def get(self, part, utt):
        t = self.parts[part].get(self.fn(utt))
        return t if torch.is_tensor(t) else None


def ref_row_state(r, T, k):
    """Classifies one (tok, start, end) row: 'ok', ('fix', repaired_row) or 'bad'."""
    tok, s, e = r
    if s < 0 and e < 0:
        return "ok", r
    if s < 0 or e < 0:
        return "fix", [tok, -1, -1]
    if e < s:
        return "bad", r
    if e > T:
        if k is not None and s <= T and e - k <= T:
            return "fix", [tok, s, T]
        return "bad", r
    return "ok", r


def judge(model, k):
    """Walks the utterances the way the conditions are stated.

    Returns (well_formed, fixable_with_k, repaired: dict (part, fn) -> tensor).
    well_formed ignores k; fixable_with_k says whether VALIDATE(fix=k) must succeed."""
    utts = model.utts()
    well = True
    fixable = True
    repaired = {}
    feat_dtype = None
    width = None
    ref_dim = None
    has_ali, has_ref = model.has("ali"), model.has("ref")
    for u in utts:
        fn = model.fn(u)
        feat = model.get("feat", u)
        if feat_dtype is not None and feat.dtype != feat_dtype:
            well = fixable = False
        feat_dtype = feat.dtype if feat_dtype is None else feat_dtype
        if feat.dim() != 2:
            return False, False, repaired
        T, F = feat.shape
        if width is not None and F != width:
            well = fixable = False
        width = F if width is None else width
        if has_ali:
            ali = model.get("ali", u)
            new = ali
            if ali.dtype != torch.long:
                well = False
                if ali.dtype in (torch.uint8, torch.int32, torch.int8, torch.int16):
                    new = new.long()
                else:
                    fixable = False
            if ali.dim() != 1:
                well = fixable = False
            elif ali.shape[0] != T:
                well = False
                if k is not None and T < ali.shape[0] <= T + k:
                    new = new[:T]
                else:
                    fixable = False
            if new is not ali:
                repaired[("ali", fn)] = new
        if has_ref:
            ref = model.get("ref", u)
            new = ref
            if ref.dtype != torch.long:
                well = False
                if ref.dtype in (torch.uint8, torch.int32, torch.int8, torch.int16):
                    new = new.long()
                else:
                    fixable = False
                    continue
            if ref.dim() not in (1, 2):
                well = fixable = False
                continue
            if ref_dim is not None and ref.dim() != ref_dim:
                well = fixable = False
            ref_dim = ref.dim() if ref_dim is None else ref_dim
            if ref.dim() == 2:
                if ref.shape[1] != 3:
                    well = fixable = False
                    continue
                rows = new.tolist()
                out_rows = []
                changed = False
                for r in rows:
                    st, rr = ref_row_state(r, T, k)
                    if st == "bad":
                        well = fixable = False
                    elif st == "fix":
                        well = False
                        changed = True
                    out_rows.append(rr)
                if changed:
                    new = torch.tensor(out_rows, dtype=torch.long).reshape(-1, 3)
            if new is not ref:
                repaired[("ref", fn)] = new
    return well, fixable, repaired


def partial_ok(part, old, new, full, T, k):
    """After a failed fix: is the stored tensor old, or old with some documented repairs?"""
    if torch.equal(new, old) and new.dtype == old.dtype:
        return True
    if full is not None and new.dtype == full.dtype and new.shape == full.shape and torch.equal(new, full):
        return True
    if part == "ali":
        cands = [old, old.long()]
        if old.dim() == 1 and k is not None and T < old.shape[0] <= T + k:
            cands += [old[:T], old.long()[:T]]
        return any(c.dtype == new.dtype and c.shape == new.shape and torch.equal(c, new) for c in cands)
    if part == "ref":
        if new.shape != old.shape or new.dtype not in (old.dtype, torch.long):
            return False
        if old.dim() != 2 or old.shape[1] != 3:
            return torch.equal(new.long(), old.long())
        for ro, rn in zip(old.long().tolist(), new.long().tolist()):
            st, rr = ref_row_state(ro, T, k)
            if rn != ro and not (st == "fix" and rn == rr):
                return False
        return True
    return False


def recount(model):
    utts = model.utts()
    info = {"num_utterances": len(utts), "total_frames": 0, "max_ali_class": -1, "max_ref_class": -1}
    counts, segs, rcounts, rsegs, unjudged = {}, {}, {}, {}, set()
    has_ali, has_ref = model.has("ali"), model.has("ref")
    if has_ref:
        info["total_tokens"] = 0
    else:
        info["total_tokens"] = -1
    for u in utts:
        feat = model.get("feat", u)
        info["num_filts"] = feat.shape[1]
        info["total_frames"] += feat.shape[0]
        if has_ali:
            last = None
            for c in model.get("ali", u).tolist():
                counts[c] = counts.get(c, 0) + 1
                if c != last:
                    segs[c] = segs.get(c, 0) + 1
                last = c
                info["max_ali_class"] = max(info["max_ali_class"], c)
        if has_ref:
            ref = model.get("ref", u)
            rows = ref.tolist() if ref.dim() == 2 else [[t, -1, -1] for t in ref.tolist()]
            for tok, s, e in rows:
                info["total_tokens"] += 1
                info["max_ref_class"] = max(info["max_ref_class"], tok)
                rsegs[tok] = rsegs.get(tok, 0) + 1
                if s < 0 or e < 0:
                    rcounts[tok] = -1
                elif rcounts.get(tok, 0) >= 0:
                    rcounts[tok] = rcounts.get(tok, 0) + e - s
                if s >= 0 and e == s:
                    unjudged.add(tok)  # documentation is ambiguous about empty segments
    if info["max_ali_class"] >= 0:
        d = int(math.log10(max(info["max_ali_class"], 1))) + 1
        for c in range(info["max_ali_class"] + 1):
            info[f"count_{c:0{d}d}"] = counts.get(c, 0)
            info[f"segs_{c:0{d}d}"] = segs.get(c, 0)
    unj_keys = set()
    if not utts:
        unj_keys.add("total_tokens")  # 'sum of R (if available)' over no utterances: 0 or -1, not judged
    if info["max_ref_class"] >= 0:
        d = int(math.log10(max(info["max_ref_class"], 1))) + 1
        for c in range(info["max_ref_class"] + 1):
            info[f"rcount_{c:0{d}d}"] = rcounts.get(c, -1)
            info[f"rsegs_{c:0{d}d}"] = rsegs.get(c, 0)
            if c in unjudged:
                unj_keys.add(f"rcount_{c:0{d}d}")
    return info, unj_keys


# ---------------------------------------------------------------------------------------
def corrupt(model, utt, kind, arg, res):
    """Applies one stored-data fault to the model; returns list of (part, fn) to rewrite."""
    fn = model.fn(utt)
    P = model.parts
    T = P["feat"][fn].shape[0] if fn in P["feat"] and torch.is_tensor(P["feat"][fn]) and P["feat"][fn].dim() == 2 else None
    if kind.startswith("feat"):
        t = P["feat"].get(fn)
        if not torch.is_tensor(t):
            return []
        if kind == "feat_dtype":
            P["feat"][fn] = t.double() if t.dtype != torch.float64 else t.float()
        elif kind == "feat_width" and t.dim() == 2:
            P["feat"][fn] = torch.cat([t, t[:, :1]], 1)
        elif kind == "feat_rank":
            P["feat"][fn] = t.reshape(-1)
        elif kind == "feat_longer" and t.dim() == 2 and t.shape[0]:
            P["feat"][fn] = torch.cat([t] + [t[-1:]] * arg, 0)
        elif kind == "feat_shorter" and t.dim() == 2 and t.shape[0] > arg:
            P["feat"][fn] = t[: t.shape[0] - arg].clone()
        return [("feat", fn)]
    if kind.startswith("reextract"):
        t = P["feat"].get(fn)
        a = P["ali"].get(fn) if model.present["ali"] else None
        if not torch.is_tensor(t) or t.dim() != 2 or not t.shape[0]:
            return []
        out = []
        if kind == "reextract_longer":
            P["feat"][fn] = torch.cat([t] + [t[-1:]] * arg, 0)
            out.append(("feat", fn))
            if torch.is_tensor(a) and a.dim() == 1 and a.shape[0]:
                P["ali"][fn] = torch.cat([a] + [a[-1:]] * arg, 0)
                out.append(("ali", fn))
        elif t.shape[0] > arg:
            P["feat"][fn] = t[: t.shape[0] - arg].clone()
            out.append(("feat", fn))
            if torch.is_tensor(a) and a.dim() == 1 and a.shape[0] > arg:
                P["ali"][fn] = a[: a.shape[0] - arg].clone()
                out.append(("ali", fn))
        return out
    if kind.startswith("ali"):
        t = P["ali"].get(fn)
        if not torch.is_tensor(t) or not model.present["ali"]:
            return []
        if kind == "ali_uint8":
            P["ali"][fn] = t.to(torch.uint8)
        elif kind == "ali_int32":
            P["ali"][fn] = t.to(torch.int32)
        elif kind == "ali_float":
            P["ali"][fn] = t.float()
        elif kind == "ali_longer" and t.dim() == 1:
            P["ali"][fn] = torch.cat([t, torch.full((arg,), 3, dtype=t.dtype)])
        elif kind == "ali_shorter" and t.dim() == 1 and t.shape[0] > arg:
            P["ali"][fn] = t[:-arg]
        elif kind == "ali_rank":
            P["ali"][fn] = t.unsqueeze(-1)
        return [("ali", fn)]
    t = P["ref"].get(fn)
    if not torch.is_tensor(t) or not model.present["ref"]:
        return []
    if kind == "ref_uint8":
        P["ref"][fn] = t.to(torch.int32) if (t < 0).any() else t.clamp(0, 200).to(torch.uint8)
    elif kind == "ref_int32":
        P["ref"][fn] = t.to(torch.int32)
    elif kind == "ref_float":
        P["ref"][fn] = t.float()
    elif kind == "ref_dim_mix":
        if t.dim() == 2 and t.shape[1] > 0:
            P["ref"][fn] = t[:, 0].clone()
        elif t.dim() == 1:
            P["ref"][fn] = torch.stack([t, torch.full_like(t, -1), torch.full_like(t, -1)], -1)
        else:
            return []
    elif kind == "ref_width" and t.dim() == 2:
        P["ref"][fn] = t[:, :2].clone()
    elif kind == "ref_rank3":
        P["ref"][fn] = t.unsqueeze(0)
    elif t.dim() == 2 and t.shape[1] == 3 and t.shape[0] and T is not None:
        t = t.clone()
        i = arg % t.shape[0]
        if kind == "ref_half_open_start":
            t[i, 1], t[i, 2] = -1, min(T, 2)
        elif kind == "ref_half_open_end":
            t[i, 1], t[i, 2] = 0, -1
        elif kind == "ref_end_over":
            t[i, 1] = min(int(t[i, 1]) if t[i, 1] >= 0 else 0, T)
            t[i, 2] = T + arg
        elif kind == "ref_start_gt_end":
            t[i, 1], t[i, 2] = min(T, 3) + 1, min(T, 3)
        elif kind == "ref_start_over":
            t[i, 1], t[i, 2] = T + 1, T + 1 + arg
        elif kind == "ref_half_open_end_over":
            t[i, 1], t[i, 2] = -1, T + arg
        elif kind == "ref_half_open_start_over":
            t[i, 1], t[i, 2] = T + arg, -1
        P["ref"][fn] = t
    else:
        return []
    return [("ref", fn)]


def execute(sc):
    res = RunResult()
    fs = SimFS()
    lrng = random.Random(sc["listing_seed"])

    def perm(lst):
        lst = list(lst)
        lrng.shuffle(lst)
        if lst != sorted(lst):
            res.bump("probe.listing_not_sorted")
        return lst

    fs.listing_perm = perm
    model = Model(sc)
    with warnings.catch_warnings():
        warnings.simplefilter("ignore")
        with patched(fs):
            import os

            from pydrobert.torch import data
            from pydrobert.torch import command_line

            for part in ("feat", "ali", "ref"):
                if model.present[part]:
                    os.makedirs(f"{DIR}/{model.subdir(part)}", exist_ok=True)
                    for fn, t in model.parts[part].items():
                        torch.save(t, model.path(part, fn))

            kept = {}

            def dataset(**kw):
                if sc.get("reuse_ds") and not kw:
                    if "ds" not in kept:
                        kept["ds"] = dataset(_fresh=True)
                    else:
                        res.bump("fault.data_set_object_reused")
                    return kept["ds"]
                kw.pop("_fresh", None)
                base = dict(file_prefix=sc["prefix"], file_suffix=sc["suffix"], feat_subdir=model.feat_sd, ali_subdir=model.ali_sd, ref_subdir=model.ref_sd,
                            suppress_alis=False, tokens_only=False, warn_on_missing=False)
                base.update(kw)
                return data.SpectDataSet(DIR, **base)

            def disk_equals_model(ctx, allow=None):
                """Every stored tensor equals the model's (allow: {(part, fn): predicate})."""
                for part in ("feat", "ali", "ref"):
                    if not model.present[part]:
                        continue
                    on_disk = set(fs.listdir(f"{DIR}/{model.subdir(part)}"))
                    if on_disk != set(model.parts[part]):
                        res.violate("disk.file-set", f"{ctx}: files in {part} changed: {sorted(on_disk ^ set(model.parts[part]))}")
                        return False
                    for fn, t in model.parts[part].items():
                        if not torch.is_tensor(t):
                            continue
                        got = torch.load(model.path(part, fn))
                        pred = (allow or {}).get((part, fn))
                        if pred is not None:
                            if not pred(got):
                                res.violate("fix.partial-write", f"{ctx}: {part}/{fn} holds neither its old content nor a documented repair", part=part)
                                return False
                            model.parts[part][fn] = got
                        elif got.dtype != t.dtype or got.shape != t.shape or not torch.equal(got, t):
                            res.violate("disk.changed", f"{ctx}: {part}/{fn} was modified although no documented repair applies", part=part)
                            return False
                return True

            for op in sc["ops"]:
                res.steps += 1
                kind = op[0]
                if kind == "corrupt":
                    utt = model.names[op[1] % sc["n"]]
                    for part, fn in corrupt(model, utt, op[2], op[3], res):
                        torch.save(model.parts[part][fn], model.path(part, fn))
                        res.bump("fault.stored_corruption")
                        res.bump(f"fault_at.{op[2]}")
                    res.log.add("corrupt", utt, op[2], op[3])
                elif kind == "repair":
                    utt = model.names[op[1] % sc["n"]]
                    fn = model.fn(utt)
                    if any(model.present[part] and fn not in model.parts[part] for part in ("feat", "ali", "ref")):
                        kept.clear()  # a removed file comes back: the set of files changes
                    for part in ("feat", "ali", "ref"):
                        if model.present[part]:
                            model.parts[part][fn] = model.orig[utt][part].clone()
                            torch.save(model.parts[part][fn], model.path(part, fn))
                elif kind == "remove":
                    kept.clear()  # the set of files changes: a data set object is built anew
                    utt = model.names[op[1] % sc["n"]]
                    fn = model.fn(utt)
                    if model.present[op[2]] and fn in model.parts[op[2]]:
                        del model.parts[op[2]][fn]
                        os.remove(model.path(op[2], fn))
                        res.bump("fault.file_removed")
                elif kind == "stray":
                  kept.clear()
                  for part in (["feat", "ali", "ref"] if op[1] == "all" else [op[1]]):
                    if model.present[part] and op[2] not in model.parts[part]:
                        name = op[2]
                        # a stray must not accidentally be a member
                        if name.startswith(sc["prefix"]) and name.endswith(sc["suffix"]):
                            name = "~" + name if sc["prefix"] else name + "~"
                            if name.startswith(sc["prefix"]) and name.endswith(sc["suffix"]):
                                continue
                        model.parts[part][name] = "stray"
                        with open(model.path(part, name), "w") as f:
                            f.write("not a tensor")
                        res.bump("fault.stray_file")
                elif kind in ("validate", "fix"):
                    k = op[1] if kind == "fix" else None
                    well, fixable, repaired = judge(model, k)
                    ctx = f"validate(fix={k})"
                    try:
                        ds = dataset()
                        if list(ds.utt_ids) != model.utts():
                            res.violate("utts.set", f"data set sees utterances {list(ds.utt_ids)}, expected {model.utts()}")
                            return res
                        data.validate_spect_data_set(ds, k) if kind == "fix" else data.validate_spect_data_set(ds)
                        raised = None
                    except HarnessError:
                        raise
                    except Exception as e:  # noqa (the documentation says ValueError; the property says "raises")
                        raised = e
                        if not isinstance(e, ValueError):
                            res.bump("probe.validate_raised_other_than_ValueError")
                    expect_ok = well if kind == "validate" else fixable
                    res.log.add(kind, k, "well", well, "fixable", fixable, "raised", bool(raised))
                    if expect_ok and raised is not None:
                        res.violate("validate.rejects-valid" if kind == "validate" else "fix.rejects-fixable", f"{ctx} raised on a directory that meets the conditions"
                                    f"{' after the documented repairs' if kind == 'fix' else ''}: {raised}", fix=k is not None)
                        return res
                    if not expect_ok and raised is None:
                        res.violate("validate.accepts-invalid" if kind == "validate" else "fix.accepts-unfixable", f"{ctx} accepted a directory that violates the documented conditions", fix=k is not None)
                        return res
                    if kind == "validate" or not repaired and raised is None:
                        if not disk_equals_model(ctx):
                            return res
                    elif raised is None:
                        # success: every stored tensor equals repaired(old), nothing else changed
                        for (part, fn), t in repaired.items():
                            model.parts[part][fn] = t
                        res.bump("probe.fix_repaired_something")
                        if not disk_equals_model(ctx):
                            res.violations[-1].oracle = "fix.wrong-repair"
                            res.violations[-1].sig["oracle"] = "fix.wrong-repair"
                            return res
                        # stickiness: strict validation now passes, second fix changes nothing
                        try:
                            data.validate_spect_data_set(dataset())
                        except HarnessError:
                            raise
                        except Exception as e:  # noqa
                            res.violate("fix.not-sticky", f"strict validation after a successful fix={k} raised: {e}")
                            return res
                        snap = fs.snapshot()
                        data.validate_spect_data_set(dataset(), k)
                        if fs.snapshot() != snap:
                            res.violate("fix.not-idempotent", f"a second fix={k} run changed the directory")
                            return res
                    else:
                        # failure: repairs may already have been written for some files
                        allow = {}
                        for part in ("ali", "ref"):
                            for fn, old in model.parts[part].items():
                                if not torch.is_tensor(old):
                                    continue
                                ft = model.parts["feat"].get(fn)
                                T = ft.shape[0] if torch.is_tensor(ft) and ft.dim() == 2 else 0
                                full = repaired.get((part, fn))
                                allow[(part, fn)] = (lambda got, part=part, old=old, full=full, T=T: partial_ok(part, old, got, full, T, k))
                        if not disk_equals_model(ctx, allow):
                            return res
                        res.bump("probe.fix_failed_midway")
                elif kind == "info":
                    mode, k = op[1], op[2]
                    well, fixable, repaired = judge(model, k if mode == "fix" else None)
                    args = [DIR, f"{ROOT}/info.txt", "--file-prefix", sc["prefix"], "--file-suffix", sc["suffix"], "--feat-subdir", model.feat_sd,
                            "--ali-subdir", model.ali_sd, "--ref-subdir", model.ref_sd]
                    if not sc["prefix"]:
                        del args[2:4]
                    if mode == "strict":
                        args.append("--strict")
                    elif mode == "fix":
                        args += ["--fix", str(k)]
                    expect_ok = {"none": well, "strict": well, "fix": fixable}[mode]
                    try:
                        rc = command_line.get_torch_spect_data_dir_info(args)
                        raised = None
                    except HarnessError:
                        raise
                    except Exception as e:  # noqa
                        raised = e
                    res.log.add("info", mode, k, "raised", bool(raised))
                    if mode == "none" and not well:
                        # not guaranteed to be correct; but it must not touch the directory
                        if not disk_equals_model("info"):
                            return res
                        continue
                    if expect_ok and raised is not None:
                        res.violate("info.rejects", f"info --{mode} raised on an acceptable directory: {raised}", mode=mode)
                        return res
                    if not expect_ok and raised is None:
                        res.violate("info.accepts-invalid", f"info --{mode} {k if mode == 'fix' else ''} accepted a directory that violates the documented conditions", mode=mode, k=k if mode == "fix" else None)
                        return res
                    if raised is not None:
                        if mode == "fix":
                            # resync the model with whatever documented partial repairs were written
                            allow = {}
                            for part in ("ali", "ref"):
                                for fn, old in model.parts[part].items():
                                    if torch.is_tensor(old):
                                        ft = model.parts["feat"].get(fn)
                                        T = ft.shape[0] if torch.is_tensor(ft) and ft.dim() == 2 else 0
                                        allow[(part, fn)] = (lambda got, part=part, old=old, full=repaired.get((part, fn)), T=T: partial_ok(part, old, got, full, T, k))
                            if not disk_equals_model("info --fix", allow):
                                return res
                        continue
                    if mode == "fix":
                        for (part, fn), t in repaired.items():
                            model.parts[part][fn] = t
                        if not disk_equals_model("info --fix"):
                            return res
                    want, unj = recount(model)
                    text = bytes(fs.files[f"{ROOT}/info.txt"]).decode()
                    got = {}
                    keys = []
                    for line in text.splitlines():
                        a, b = line.split()
                        got[a] = int(b)
                        keys.append(a)
                    if keys != sorted(keys):
                        res.violate("info.unsorted", "info keys are not written in sorted order")
                        return res
                    if set(got) != set(want):
                        res.violate("info.keys", f"info keys differ from the recount: {sorted(set(got) ^ set(want))[:6]}")
                        return res
                    for key in want:
                        if key in unj:
                            continue
                        if got[key] != want[key]:
                            res.violate("info.value", f"info reports {key} = {got[key]}, the recount of the stored tensors gives {want[key]}", key=key.split("_")[0] + ("_" + key.split("_")[1] if not key.split("_")[-1].isdigit() else ""))
                            return res
                    res.bump("probe.info_judged")
                elif kind == "read":
                    sos, eos, tokens_only = op[1], op[2], op[3]
                    if not model.has("ref"):
                        continue
                    # "lo": an id inside the range of frame indices (so it can equal a boundary) that no
                    # stored token uses; only when tokens are the large utterance-coded ones
                    used = {int(t) for fn_, r_ in model.parts["ref"].items() if torch.is_tensor(r_) and r_.numel() and r_.dtype in (torch.long, torch.int32, torch.uint8)
                            for t in (r_[:, 0] if r_.dim() == 2 and r_.shape[1] else r_.reshape(-1)).tolist()}
                    if sos == "lo":
                        sos = next(v for v in (3, 2, 6, 7, 1000) if v not in used)
                    if eos == "lo":
                        eos = next(v for v in (5, 4, 1, 8, 1001) if v not in used and v != sos)
                    try:
                        # the symbols are configured through the parameters or through the data set's own keywords
                        if (len(sc["ops"]) + (sos or 0)) % 2:
                            ds = dataset(params=data.SpectDataParams(sos=sos, eos=eos), tokens_only=tokens_only)
                        else:
                            ds = dataset(sos=sos, eos=eos, tokens_only=tokens_only)
                            res.bump("probe.sos_eos_by_keyword")
                    except Exception as e:  # noqa
                        res.violate("read.construct", f"data set construction raised {type(e).__name__}: {e}")
                        return res
                    for idx, u in enumerate(ds.utt_ids):
                        stored = model.get("ref", u)
                        if stored.dtype != torch.long or stored.dim() not in (1, 2) or (stored.dim() == 2 and stored.shape[1] != 3):
                            continue
                        try:
                            ref = ds[idx][2]
                        except Exception as e:  # noqa
                            if model.get("feat", u).dim() != 2:
                                continue
                            res.violate("read.raised", f"reading utterance {u} (R={stored.shape[0]}, {stored.dim()}-D, sos={sos}, eos={eos}) raised {type(e).__name__}: {e}", empty=stored.shape[0] == 0)
                            return res
                        bare = stored[:, 0] if (tokens_only and stored.dim() == 2) else stored
                        two = bare.dim() == 2
                        pre = ([[sos, -1, -1]] if two else [sos]) if sos is not None else []
                        post = ([[eos, -1, -1]] if two else [eos]) if eos is not None else []
                        want = pre + bare.tolist() + post
                        if ref.tolist() != want:
                            res.violate("read.sos-eos", f"utterance {u}: read {ref.tolist()}, expected sos/eos around the stored transcript: {want}", empty=stored.shape[0] == 0)
                            return res
                        if stored.shape[0] == 0:
                            res.bump("probe.read_empty_ref")
                        # writing strips them again
                        if sos is not None or eos is not None:
                            ds.write_hyp(u, ref, f"{ROOT}/hyp")
                            back = torch.load(f"{ROOT}/hyp/{model.fn(u)}")
                            if back.tolist() != bare.tolist():
                                res.violate("hyp.round-trip", f"utterance {u}: write_hyp of the read reference stored {back.tolist()}, bare tokens are {bare.tolist()}")
                                return res
                elif kind == "hyp":
                    utt = model.names[op[1] % sc["n"]]
                    r = random.Random(op[2])
                    sos, eos = 1000, 1001
                    toks = [r.randrange(0, 50) for _ in range(r.randrange(0, 5))]
                    before = [r.choice([sos, eos, 7]) for _ in range(r.randrange(0, 3))]
                    after = [r.choice([eos, 9]) for _ in range(r.randrange(0, 3))]
                    use_sos, use_eos = r.random() < 0.8, r.random() < 0.8
                    hyp = (before + [sos] if use_sos else []) + toks + ([eos] + after if use_eos else [])
                    two = r.random() < 0.4
                    ht = torch.tensor(hyp, dtype=torch.long)
                    if two:
                        ht = torch.stack([ht, torch.full_like(ht, -1), torch.full_like(ht, -1)], -1).reshape(-1, 3)
                    try:
                        if r.random() < 0.5:
                            ds = dataset(params=data.SpectDataParams(sos=sos if use_sos else None, eos=eos if use_eos else None))
                        else:
                            ds = dataset(sos=sos if use_sos else None, eos=eos if use_eos else None)
                        if utt not in ds.utt_ids:
                            continue
                        ds.write_hyp(utt, ht, f"{ROOT}/hyp2")
                        back = torch.load(f"{ROOT}/hyp2/{model.fn(utt)}")
                    except Exception as e:  # noqa
                        res.violate("hyp.raised", f"write_hyp raised {type(e).__name__}: {e}")
                        return res
                    got = back[:, 0].tolist() if back.dim() == 2 else back.tolist()
                    if got != toks or back.dim() != ht.dim():
                        res.violate("hyp.strip", f"write_hyp({hyp}) stored {got}, bare tokens are {toks}")
                        return res
                    res.bump("probe.hyp_written")
                res.states.add(str((op[0], op[2] if op[0] == "corrupt" else None, len(model.utts()))))
    res.nontrivial = any(o[0] == "corrupt" for o in sc["ops"]) and any(o[0] in ("validate", "fix", "info") for o in sc["ops"])
    return res


def shrink_candidates(sc):
    for i in range(len(sc["ops"])):
        c = copy.deepcopy(sc)
        del c["ops"][i]
        yield c
    n = sc["n"]
    if n > 1:
        c = copy.deepcopy(sc)
        c["n"] = n - 1
        c["lens"], c["rlens"] = c["lens"][:-1], c["rlens"][:-1]
        yield c
    simple = {"prefix": "", "suffix": ".pt", "subdirs": ["feat", "ali", "ref"], "id_style": 0, "F": 1, "with_ali": False}
    for k, v in simple.items():
        if sc[k] != v:
            c = copy.deepcopy(sc)
            c[k] = v
            yield c
    for i in range(n):
        if sc["lens"][i] > 1:
            c = copy.deepcopy(sc)
            c["lens"][i] = max(1, sc["lens"][i] // 2)
            yield c
        if sc["rlens"][i] > 1:
            c = copy.deepcopy(sc)
            c["rlens"][i] = 1
            yield c
    for i, op in enumerate(sc["ops"]):
        if op[0] in ("corrupt",) and op[3] > 1:
            c = copy.deepcopy(sc)
            c["ops"][i][3] = 1
            yield c
        if op[0] == "fix" and op[1] > 0:
            c = copy.deepcopy(sc)
            c["ops"][i][1] = op[1] - 1
            yield c


def sample_repr(sc):
    return {k: v for k, v in sc.items() if k not in ("salt", "listing_seed")}


GROUP_KEYS = ("oracle", "part", "fix", "mode", "exc", "key", "empty", "k")
BUDGET = {"quick": 25000, "thorough": 100000}
WALL_CAP = {"quick": 300, "thorough": 3000}
RULE = (
    "run i derives a small data directory (1..5 utterances, T <= 8, prefix/suffix/sub-directory naming, 1-D or 2-D references with known, missing "
    "and empty segments) and a 4..12-step history on it from sha256(VERIF_SEED/C12/i): CORRUPT (20 stored-data fault kinds), REPAIR, REMOVE, STRAY, "
    "VALIDATE, VALIDATE(fix=k), INFO(none|strict|fix k) through the command, READ(sos, eos, tokens_only) with write_hyp round trip, WRITE_HYP; directory "
    "listings are permuted by the seed. One evaluation = one history judged step by step against the in-memory reference model. Non-trivial = the history "
    "contains at least one corruption and one validation/fix/info; distinct = scenario hash."
)
STATE_MEASURE = "distinct (operation, corruption kind, utterance-set size) triples executed"
COMPONENTS = {
    "real": ["pydrobert.torch._datasets (SpectDataSet, validate_spect_data_set, _info_and_validate, _load_ref, _write_hyp)", "command_line.get_torch_spect_data_dir_info", "torch.save/load"],
    "stub": ["file system: SimFS with seed-permuted directory listings (stored-data corruption is the injected fault)"],
    "reference_model": ["props/c12.py::Model, judge (well_formed / repaired from the validate_spect_data_set docstring), recount"],
}
ASSUMPTIONS = [
    "no CUDA tensors (condition 1 cannot be violated on this machine)",
    "integer dtypes injected: uint8 and int32 (documented as repairable) and float (must raise); int8/int16 are not injected (the docstring is silent, the code upcasts them)",
    "when fix=k raises, files may hold their old content or documented repairs (per file / per reference row); the order of write-backs is not judged",
    "info without --strict/--fix on an invalid directory is not judged (documented as not guaranteed)",
    "rcount_<i> is not judged for token classes that have an empty known segment (start == end): documentation ambiguous",
    "token ids are non-negative",
]
