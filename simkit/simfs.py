"""SimFS: an in-memory file system with process-crash semantics (DESIGN.md 3.3).

Kernel state (survives a crash): ``files`` (path -> bytearray) and ``dirs``.
User-space state (lost at a crash): bytes sitting in a ``SimFile`` buffer.

Every *mutating* kernel-level operation (mkdir, create, write, replace, remove) gets a
global index.  A fault plan names an index ``k`` and a kind:

* ``crash``:  just before op ``k`` is applied the FS is marked dead and ``SimCrash`` is
  raised.  While dead, every further mutation is silently dropped (a killed process
  cannot flush anything from ``finally``/``__exit__`` blocks).
* ``ioerr``:  op ``k`` (and every later create/write: the disk stays full) raises
  ``OSError(ENOSPC)``; Python-level clean-up runs normally.

Paths below ``ROOT`` are routed here by ``patched()``; everything else goes to the real
functions, so code that bypasses the seam fails on the real disk (``/simfs`` does not
exist) and is reported as a harness error, never as a violation.
"""
import builtins
import contextlib
import errno
import io
import os
import posixpath
import shutil
import tempfile

import torch

from .core import SimCrash, HarnessError

ROOT = "/simfs"
TEXT_BUFFER = 8192  # CPython's text/buffered layer size
FAKE_FD_BASE = 1 << 20


def under_root(p):
    if isinstance(p, bytes):
        return False
    try:
        p = os.fspath(p)
    except TypeError:
        return False
    return isinstance(p, str) and (p == ROOT or p.startswith(ROOT + "/"))


def norm(p):
    return posixpath.normpath(os.fspath(p))


class SimFile:
    """Write-mode file object with an explicit user-space buffer."""

    def __init__(self, fs, path, binary, bufsize):
        self.fs = fs
        self.name = path
        self.binary = binary
        self.bufsize = bufsize
        self.buf = bytearray()
        self.closed = False
        self.mode = "wb" if binary else "w"

    # --- file protocol -------------------------------------------------------------
    def write(self, data):
        if self.closed:
            raise ValueError("I/O operation on closed file.")
        if self.binary:
            if isinstance(data, str):
                raise TypeError("a bytes-like object is required, not 'str'")
            b = bytes(data)
        else:
            if not isinstance(data, str):
                raise TypeError("write() argument must be str")
            b = data.encode("utf-8")
        self.buf += b
        if len(self.buf) >= self.bufsize:
            self.flush()
        return len(data)

    def writelines(self, lines):
        for l in lines:
            self.write(l)

    def flush(self):
        if self.closed:
            raise ValueError("I/O operation on closed file.")
        if not self.buf:
            return
        data = bytes(self.buf)

        def apply():
            self.fs.files[self.name] += data

        # if the op is dropped (dead) or fails (ioerr) the buffer content is lost or
        # kept exactly as a real process would: dead -> nobody will ever see it;
        # ioerr -> CPython keeps the buffer, a later flush retries.
        if self.fs._mutate("write", self.name, apply, len(data)):
            self.buf.clear()

    def close(self):
        if self.closed:
            return
        try:
            self.flush()
        finally:
            self.closed = True

    def writable(self):
        return True

    def readable(self):
        return False

    def seekable(self):
        return False

    def tell(self):
        return len(self.fs.files.get(self.name, b"")) + len(self.buf)

    def fileno(self):
        # a fake descriptor, understood by the patched os.fsync / os.fdatasync only
        return self.fs.fake_fd(self)

    def isatty(self):
        return False

    def __enter__(self):
        return self

    def __exit__(self, *exc):
        self.close()
        return False


class _DirEntry:
    def __init__(self, fs, parent, name):
        self._fs = fs
        self.name = name
        self.path = parent + "/" + name

    def is_file(self, follow_symlinks=True):
        return self._fs.isfile(self.path)

    def is_dir(self, follow_symlinks=True):
        return self._fs.isdir(self.path)

    def is_symlink(self):
        return False

    def stat(self, follow_symlinks=True):
        return self._fs.stat(self.path)

    def __fspath__(self):
        return self.path


class _ScanDir:
    def __init__(self, entries):
        self._it = iter(entries)

    def __iter__(self):
        return self

    def __next__(self):
        return next(self._it)

    def close(self):
        self._it = iter(())

    def __enter__(self):
        return self

    def __exit__(self, *exc):
        self.close()
        return False


class SimFS:
    def __init__(self, bufsize=1 << 16):
        self.files = {}
        self.dirs = {ROOT}
        self.bufsize = bufsize
        self.dead = False
        self.opcount = 0  # mutating ops applied or attempted by the current process
        self.fault_kind = None
        self.fault_at = None
        self.fault_fired = None  # (kind, opkind, path) once it fired
        self.disk_full = False
        self.oplog = []  # (kind, path) of ops applied by the current process
        self.tmp_counter = 0
        self.listing_perm = None  # callable(list)->list, to permute listdir results
        self.total_ops = 0
        self.fds = {}  # fake descriptor -> SimFile
        self.bypass = []  # un-modelled calls that reached a path under ROOT (-> harness error)
        self.syncs = 0

    def _unmodelled(self, msg):
        """Something SimFS cannot model was asked of it: remember it (the run then ends as a harness
        error, exit 2, whatever the code under test does with the exception) and return the exception."""
        self.bypass.append(msg)
        return HarnessError(msg)

    def fake_fd(self, f):
        for fd, g in self.fds.items():
            if g is f:
                return fd
        fd = FAKE_FD_BASE + len(self.fds)
        self.fds[fd] = f
        return fd

    def fsync(self, fd):
        """A no-op in the process-crash model (completed writes are already durable), but the
        descriptor must be one of ours and still open."""
        f = self.fds.get(fd)
        if f is None or f.closed:
            raise OSError(errno.EBADF, "Bad file descriptor")
        if f.buf:
            # os.fsync on a Python file object's descriptor does not flush the user-space buffer
            pass
        self.syncs += 1

    def stat(self, path):
        path = norm(path)
        import stat as _stat

        if path in self.files:
            return os.stat_result((_stat.S_IFREG | 0o644, 0, 0, 1, 0, 0, len(self.files[path]), 0, 0, 0))
        if path in self.dirs:
            return os.stat_result((_stat.S_IFDIR | 0o755, 0, 0, 2, 0, 0, 4096, 0, 0, 0))
        raise FileNotFoundError(errno.ENOENT, "No such file or directory", path)

    def rmdir(self, path):
        path = norm(path)
        if path not in self.dirs:
            if path in self.files:
                raise NotADirectoryError(errno.ENOTDIR, "Not a directory", path)
            raise FileNotFoundError(errno.ENOENT, "No such file or directory", path)
        if self.listdir(path):
            raise OSError(errno.ENOTEMPTY, "Directory not empty", path)
        self._mutate("rmdir", path, lambda: self.dirs.discard(path))

    def rmtree(self, path, ignore_errors=False, onerror=None, **kw):
        """shutil.rmtree: files and directories go one by one, deepest first (a crash leaves the rest)."""
        path = norm(path)
        if path not in self.dirs:
            if ignore_errors:
                return
            if path in self.files:
                raise NotADirectoryError(errno.ENOTDIR, "Not a directory", path)
            raise FileNotFoundError(errno.ENOENT, "No such file or directory", path)
        for name in self.listdir(path):
            child = path + "/" + name
            if child in self.dirs:
                self.rmtree(child)
            else:
                self.remove(child)
        self.rmdir(path)

    def mkdtemp(self, suffix=None, prefix=None, dir=None):
        if dir is None or not under_root(dir):
            raise self._unmodelled(f"temporary directory outside {ROOT}: {dir}")
        dir = norm(dir)
        if dir not in self.dirs:
            raise FileNotFoundError(errno.ENOENT, "No such file or directory", dir)
        self.tmp_counter += 1
        name = f"{dir}/{prefix or 'tmp'}{self.tmp_counter:06d}{suffix or ''}"
        self.mkdir(name)
        return name

    def copyfile(self, src, dst, **kw):
        src, dst = norm(src), norm(dst)
        if dst in self.dirs:
            dst = dst + "/" + posixpath.basename(src)
        with self.open(src, "rb") as f:
            data = f.read()
        with self.open(dst, "wb") as g:
            g.write(data)
        return dst

    def scandir(self, path):
        path = norm(path)
        return _ScanDir([_DirEntry(self, path, n) for n in self.listdir(path)])

    # --- process lifecycle -----------------------------------------------------------
    def start_process(self, fault=None):
        """Revive after a crash; arm the next fault (dict kind/at) if any."""
        self.dead = False
        self.disk_full = False
        self.opcount = 0
        self.oplog = []
        self.fault_fired = None
        if fault is None:
            self.fault_kind = self.fault_at = None
        else:
            self.fault_kind, self.fault_at = fault["kind"], fault["at"]

    def snapshot(self):
        return ({k: bytes(v) for k, v in self.files.items()}, set(self.dirs))

    def digest_state(self):
        import hashlib

        h = hashlib.sha256()
        for k in sorted(self.files):
            h.update(k.encode())
            h.update(b"\0")
            h.update(hashlib.sha256(bytes(self.files[k])).digest())
        for d in sorted(self.dirs):
            h.update(d.encode())
        return h.hexdigest()[:16]

    # --- the single choke point for mutations ---------------------------------------
    def _mutate(self, kind, path, apply, nbytes=0):
        """Returns True if applied, False if dropped (dead). May raise."""
        if self.dead:
            return False
        idx = self.opcount
        if self.fault_at is not None and idx >= self.fault_at:
            if self.fault_kind == "crash" and idx == self.fault_at:
                self.dead = True
                self.fault_fired = ("crash", kind, path)
                raise SimCrash(f"crash before fs-op {idx} ({kind} {path})")
            if self.fault_kind == "ioerr":
                if idx == self.fault_at:
                    self.disk_full = True
                    self.fault_fired = ("ioerr", kind, path)
                if self.disk_full and kind in ("create", "write", "mkdir"):
                    self.opcount += 1
                    raise OSError(errno.ENOSPC, "No space left on device (simulated)", path)
        self.opcount += 1
        self.total_ops += 1
        apply()
        self.oplog.append((kind, path))
        return True

    # --- namespace operations --------------------------------------------------------
    def _parent_must_exist(self, path):
        parent = posixpath.dirname(path)
        if parent not in self.dirs:
            raise FileNotFoundError(errno.ENOENT, "No such file or directory", path)

    def exists(self, path):
        path = norm(path)
        return path in self.files or path in self.dirs

    def isfile(self, path):
        return norm(path) in self.files

    def isdir(self, path):
        return norm(path) in self.dirs

    def getsize(self, path):
        path = norm(path)
        if path in self.files:
            return len(self.files[path])
        if path in self.dirs:
            return 4096
        raise FileNotFoundError(errno.ENOENT, "No such file or directory", path)

    def makedirs(self, path, mode=0o777, exist_ok=False):
        path = norm(path)
        if path in self.files:
            raise FileExistsError(errno.EEXIST, "File exists", path)
        if path in self.dirs:
            if exist_ok:
                return
            raise FileExistsError(errno.EEXIST, "File exists", path)
        missing = []
        p = path
        while p not in self.dirs:
            if p in self.files:
                raise NotADirectoryError(errno.ENOTDIR, "Not a directory", path)
            missing.append(p)
            p = posixpath.dirname(p)
            if not under_root(p):
                raise self._unmodelled(f"makedirs escaped {ROOT}: {path}")
        for p in reversed(missing):
            self._mutate("mkdir", p, lambda p=p: self.dirs.add(p))

    def mkdir(self, path, mode=0o777):
        path = norm(path)
        if self.exists(path):
            raise FileExistsError(errno.EEXIST, "File exists", path)
        self._parent_must_exist(path)
        self._mutate("mkdir", path, lambda: self.dirs.add(path))

    def listdir(self, path):
        path = norm(path)
        if path not in self.dirs:
            if path in self.files:
                raise NotADirectoryError(errno.ENOTDIR, "Not a directory", path)
            raise FileNotFoundError(errno.ENOENT, "No such file or directory", path)
        pre = path + "/"
        out = set()
        for coll in (self.files, self.dirs):
            for k in coll:
                if k.startswith(pre):
                    out.add(k[len(pre) :].split("/", 1)[0])
        out = sorted(out)
        if self.listing_perm is not None:
            out = self.listing_perm(out)
        return out

    def remove(self, path):
        path = norm(path)
        if path in self.dirs:
            raise IsADirectoryError(errno.EISDIR, "Is a directory", path)
        if path not in self.files:
            raise FileNotFoundError(errno.ENOENT, "No such file or directory", path)
        self._mutate("remove", path, lambda: self.files.pop(path))

    def replace(self, src, dst):
        src, dst = norm(src), norm(dst)
        if not (under_root(src) and under_root(dst)):
            raise self._unmodelled(f"replace across the seam: {src} -> {dst}")
        if src in self.dirs:
            # rename of a directory: one atomic operation that moves everything below it
            if dst in self.files:
                raise NotADirectoryError(errno.ENOTDIR, "Not a directory", dst)
            if dst in self.dirs and self.listdir(dst):
                raise OSError(errno.ENOTEMPTY, "Directory not empty", dst)
            if dst == src or dst.startswith(src + "/"):
                raise OSError(errno.EINVAL, "Invalid argument", dst)
            self._parent_must_exist(dst)

            def apply_dir():
                for k in [k for k in self.files if k.startswith(src + "/")]:
                    self.files[dst + k[len(src):]] = self.files.pop(k)
                for k in [k for k in self.dirs if k == src or k.startswith(src + "/")]:
                    self.dirs.discard(k)
                    self.dirs.add(dst + k[len(src):])

            self._mutate("replace", dst, apply_dir)
            return
        if src not in self.files:
            raise FileNotFoundError(errno.ENOENT, "No such file or directory", src)
        if dst in self.dirs:
            raise IsADirectoryError(errno.EISDIR, "Is a directory", dst)
        self._parent_must_exist(dst)

        def apply():
            self.files[dst] = self.files.pop(src)

        self._mutate("replace", dst, apply)

    def open(self, path, mode="r", buffering=-1, encoding=None, errors=None, newline=None, **kw):
        path = norm(path)
        binary = "b" in mode
        plus = "+" in mode
        kind = mode.replace("b", "").replace("t", "").replace("+", "")
        if plus:
            raise self._unmodelled(f"open mode {mode!r} not modelled")
        if kind == "r":
            if path in self.dirs:
                raise IsADirectoryError(errno.EISDIR, "Is a directory", path)
            if path not in self.files:
                raise FileNotFoundError(errno.ENOENT, "No such file or directory", path)
            raw = io.BytesIO(bytes(self.files[path]))
            raw.name = path
            if binary:
                return raw
            return io.TextIOWrapper(raw, encoding=encoding or "utf-8", errors=errors, newline=newline)
        if kind not in ("w", "a", "x"):
            raise self._unmodelled(f"open mode {mode!r} not modelled")
        if path in self.dirs:
            raise IsADirectoryError(errno.EISDIR, "Is a directory", path)
        self._parent_must_exist(path)
        if kind == "x" and path in self.files:
            raise FileExistsError(errno.EEXIST, "File exists", path)
        if path not in self.files:
            self._mutate("create", path, lambda: self.files.__setitem__(path, bytearray()))
        elif kind == "w" and len(self.files[path]):
            self._mutate("truncate", path, lambda: self.files.__setitem__(path, bytearray()))
        if not binary and newline not in (None, "", "\n"):
            raise self._unmodelled("newline translation on write not modelled")
        bufsize = self.bufsize if binary else TEXT_BUFFER
        if buffering == 0 and binary:
            bufsize = 1
        f = SimFile(self, path, binary, bufsize)
        f.mode = mode
        return f

    def named_temporary_file(self, mode="w+b", dir=None, prefix=None, suffix=None, delete=True, **kw):
        if delete:
            raise self._unmodelled("NamedTemporaryFile(delete=True) not modelled in SimFS")
        if dir is None or not under_root(dir):
            raise self._unmodelled(f"temp file outside {ROOT}: {dir}")
        dir = norm(dir)
        if dir not in self.dirs:
            raise FileNotFoundError(errno.ENOENT, "No such file or directory", dir)
        self.tmp_counter += 1
        name = f"{dir}/{prefix or 'tmp'}{self.tmp_counter:06d}{suffix or ''}"
        m = mode.replace("+", "")
        return self.open(name, m)


@contextlib.contextmanager
def patched(fs):
    """Route every path under ROOT to ``fs`` for the duration of the block."""
    saved = []

    def patch(obj, name, make):
        real = getattr(obj, name)
        saved.append((obj, name, real))
        setattr(obj, name, make(real))

    def route1(method):
        # path is the first positional argument
        def make(real):
            def wrapper(path, *a, **k):
                if under_root(path):
                    return method(path, *a, **k)
                return real(path, *a, **k)

            wrapper.__name__ = getattr(real, "__name__", "wrapped")
            return wrapper

        return make

    def make_replace(real):
        def wrapper(src, dst, **k):
            if under_root(src) or under_root(dst):
                return fs.replace(src, dst)
            return real(src, dst, **k)

        return wrapper

    def make_ntf(real):
        def wrapper(mode="w+b", buffering=-1, encoding=None, newline=None, suffix=None, prefix=None, dir=None, delete=True, **k):
            if dir is not None and under_root(dir):
                return fs.named_temporary_file(mode, dir=dir, prefix=prefix, suffix=suffix, delete=delete)
            return real(mode, buffering, encoding, newline, suffix, prefix, dir, delete, **k)

        return wrapper

    def make_save(real):
        def wrapper(obj, f, *a, **k):
            if under_root(f):
                with fs.open(f, "wb") as fh:
                    return real(obj, fh, *a, **k)
            return real(obj, f, *a, **k)

        return wrapper

    patch(builtins, "open", route1(fs.open))
    patch(io, "open", route1(fs.open))
    patch(os, "replace", make_replace)
    patch(os, "rename", make_replace)
    patch(os, "remove", route1(fs.remove))
    patch(os, "unlink", route1(fs.remove))
    patch(os, "makedirs", route1(fs.makedirs))
    patch(os, "mkdir", route1(fs.mkdir))
    patch(os, "listdir", route1(fs.listdir))
    patch(os.path, "exists", route1(fs.exists))
    patch(os.path, "isfile", route1(fs.isfile))
    patch(os.path, "isdir", route1(fs.isdir))
    patch(os.path, "getsize", route1(fs.getsize))
    def make_fsync(real):
        def wrapper(fd):
            if isinstance(fd, int) and fd >= FAKE_FD_BASE:
                return fs.fsync(fd)
            if hasattr(fd, "fileno") and isinstance(fd, SimFile):
                return fs.fsync(fd.fileno())
            return real(fd)

        return wrapper

    def make_stat(real):
        def wrapper(path, *a, **k):
            if under_root(path):
                return fs.stat(path)
            return real(path, *a, **k)

        return wrapper

    def guard(label):
        # an un-modelled call that reaches a path under ROOT: remember it, so that the run is
        # reported as a harness error (exit 2) and never as a violation
        def make(real):
            def wrapper(*a, **k):
                args = list(a) + list(k.values())
                if any(under_root(x) for x in args if isinstance(x, (str, os.PathLike))):
                    raise fs._unmodelled(f"{label} on a path under {ROOT} is not modelled by SimFS")
                return real(*a, **k)

            wrapper.__name__ = getattr(real, "__name__", "wrapped")
            return wrapper

        return make

    patch(tempfile, "NamedTemporaryFile", make_ntf)
    patch(torch, "save", make_save)
    def make_fstat(real):
        def wrapper(fd):
            if isinstance(fd, int) and fd >= FAKE_FD_BASE:
                f = fs.fds.get(fd)
                if f is None or f.closed:
                    raise OSError(errno.EBADF, "Bad file descriptor")
                return fs.stat(f.name)
            return real(fd)

        return wrapper

    def make_mkstemp(real):
        def wrapper(suffix=None, prefix=None, dir=None, text=False):
            if dir is not None and under_root(dir):
                f = fs.named_temporary_file("w" if text else "wb", dir=dir, prefix=prefix, suffix=suffix, delete=False)
                f.bufsize = 1  # a bare descriptor has no user-space buffer until somebody wraps it
                return f.fileno(), f.name
            return real(suffix, prefix, dir, text)

        return wrapper

    def make_fdopen(real):
        def wrapper(fd, mode="r", buffering=-1, *a, **k):
            if isinstance(fd, int) and fd >= FAKE_FD_BASE:
                f = fs.fds.get(fd)
                if f is None or f.closed:
                    raise OSError(errno.EBADF, "Bad file descriptor")
                if "r" in mode or "+" in mode:
                    raise fs._unmodelled(f"os.fdopen mode {mode!r} on a SimFS descriptor not modelled")
                f.binary = "b" in mode
                f.mode = mode
                f.bufsize = 1 if (buffering == 0 and f.binary) else (fs.bufsize if f.binary else TEXT_BUFFER)
                return f
            return real(fd, mode, buffering, *a, **k)

        return wrapper

    def make_close(real):
        def wrapper(fd):
            if isinstance(fd, int) and fd >= FAKE_FD_BASE:
                f = fs.fds.get(fd)
                if f is None or f.closed:
                    raise OSError(errno.EBADF, "Bad file descriptor")
                return f.close()
            return real(fd)

        return wrapper

    def make_write(real):
        def wrapper(fd, data):
            if isinstance(fd, int) and fd >= FAKE_FD_BASE:
                f = fs.fds.get(fd)
                if f is None or f.closed:
                    raise OSError(errno.EBADF, "Bad file descriptor")
                was = f.binary
                f.binary = True
                try:
                    f.write(data)
                    f.flush()
                finally:
                    f.binary = was
                return len(data)
            return real(fd, data)

        return wrapper

    def make_noop(real):
        # metadata-only calls: permission bits and times are not part of the SimFS model
        def wrapper(*a, **k):
            args = list(a) + list(k.values())
            if any(under_root(x) for x in args if isinstance(x, (str, os.PathLike))):
                for x in args:
                    if isinstance(x, (str, os.PathLike)) and under_root(x) and not fs.exists(x):
                        raise FileNotFoundError(errno.ENOENT, "No such file or directory", os.fspath(x))
                return None
            return real(*a, **k)

        return wrapper

    class SimTemporaryDirectory:
        def __init__(self, suffix=None, prefix=None, dir=None, **k):
            self.name = fs.mkdtemp(suffix, prefix, dir)

        def cleanup(self):
            if fs.isdir(self.name):
                fs.rmtree(self.name)

        def __enter__(self):
            return self.name

        def __exit__(self, *exc):
            self.cleanup()
            return False

    def make_tmpdir(real):
        def wrapper(suffix=None, prefix=None, dir=None, **k):
            if dir is not None and under_root(dir):
                return SimTemporaryDirectory(suffix, prefix, dir)
            return real(suffix, prefix, dir, **k)

        return wrapper

    def make_mkdtemp(real):
        def wrapper(suffix=None, prefix=None, dir=None):
            if dir is not None and under_root(dir):
                return fs.mkdtemp(suffix, prefix, dir)
            return real(suffix, prefix, dir)

        return wrapper

    def make_copy(real):
        def wrapper(src, dst, *a, **k):
            if under_root(src) and under_root(dst):
                return fs.copyfile(src, dst)
            if under_root(src) or under_root(dst):
                raise fs._unmodelled("copy across the SimFS seam")
            return real(src, dst, *a, **k)

        return wrapper

    def make_move(real):
        def wrapper(src, dst, *a, **k):
            if under_root(src) or under_root(dst):
                d = norm(dst)
                if fs.isdir(d) and not fs.isdir(src):
                    d = d + "/" + posixpath.basename(norm(src))
                fs.replace(src, d)
                return d
            return real(src, dst, *a, **k)

        return wrapper

    patch(tempfile, "TemporaryDirectory", make_tmpdir)
    patch(tempfile, "mkdtemp", make_mkdtemp)
    patch(shutil, "rmtree", route1(fs.rmtree))
    patch(shutil, "copyfile", make_copy)
    patch(shutil, "copy", make_copy)
    patch(shutil, "copy2", make_copy)
    patch(shutil, "move", make_move)
    patch(os.path, "realpath", route1(lambda p, **k: norm(p)))  # no symbolic links in SimFS
    patch(os, "chmod", make_noop)
    patch(os, "utime", make_noop)
    patch(shutil, "copymode", make_noop)
    patch(shutil, "copystat", make_noop)
    patch(tempfile, "mkstemp", make_mkstemp)
    patch(os, "fdopen", make_fdopen)
    patch(os, "close", make_close)
    patch(os, "write", make_write)
    patch(os, "fstat", make_fstat)
    patch(os, "fsync", make_fsync)
    patch(os, "fdatasync", make_fsync)
    patch(os, "stat", make_stat)
    patch(os, "lstat", make_stat)
    patch(os, "rmdir", route1(fs.rmdir))
    patch(os, "scandir", route1(fs.scandir))
    patch(os.path, "lexists", route1(fs.exists))
    patch(os.path, "islink", route1(lambda p: False))
    for obj, names in ((os, ("open", "link", "symlink", "truncate", "removedirs", "renames", "walk", "mkfifo", "readlink")),
                       (os.path, ("getmtime", "getctime", "getatime", "samefile")),
                       (shutil, ("copytree",)),
                       (tempfile, ("TemporaryFile", "SpooledTemporaryFile"))):
        for name in names:
            patch(obj, name, guard(f"{obj.__name__}.{name}"))
    try:
        yield fs
    finally:
        for obj, name, real in reversed(saved):
            setattr(obj, name, real)
        if fs.bypass:
            # overrides whatever verdict or exception is on its way out: it cannot be trusted
            raise HarnessError(f"SimFS was asked for something it does not model: {sorted(set(fs.bypass))}")
