"""simkit: a small deterministic-simulation kit for pydrobert-pytorch (see DESIGN.md, section 3)."""
ENGINE_VERSION = 1
