#!/bin/bash
# Runs every property-preserving change under benign/ against the check(s) it could disturb
# (scratch worktrees, 3 at a time) and writes benign/RESULTS.md.  Every line must say exit 0.
cd /verif
out=benign/RESULTS.md
tmp=$(mktemp -d)
also() { case $1 in C15) echo "C15 C16";; C16) echo "C16 C15";; C10) echo "C10 C17";; C11) echo "C11 C17";; C18) echo "C18 C17";; C17) echo "C17 C10";; C13) echo "C13 C14";; C14) echo "C14 C13";; *) echo $1;; esac; }
for d in $(ls benign | grep -E '^C[0-9]+-'); do for id in $(also ${d%%-*}); do echo "$d $id"; done; done |
  xargs -P 3 -L 1 sh -c './tools_patch_try.sh benign/$0/patch.diff $1 > '$tmp'/$0.$1.log 2>&1'
{
echo "# Checks against property-preserving changes (false-alarm probe)"
echo
echo "Produced by ./tools_benign_all.sh (each change applied in a scratch worktree; quick tier; VERIF_SEED=${VERIF_SEED:-0})."
echo
echo "| change | check | result |"
echo "|---|---|---|"
for f in $(ls $tmp | sort); do n=${f%.log}; r=$(grep -E "exit=" $tmp/$f | tail -1 | sed 's/.*exit=//'); v=$(grep -c "^VIOLATION" $tmp/$f); echo "| ${n%.*} | ${n##*.} | exit ${r:-?}, $v VIOLATION line(s) |"; done
} > $out
rm -rf $tmp
cat $out
