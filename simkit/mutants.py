"""Textual mutants for the sensitivity self-test (never written to /repo)."""
from .selftest import Mutant

T = "pydrobert.torch.training"
DL = "pydrobert.torch._dataloaders"
DS = "pydrobert.torch._datasets"
FE = "pydrobert.torch._feats"

MUTANTS = [
    # ---- C16 -------------------------------------------------------------------------
    Mutant("c16-history-before-checkpoint", "C16", T, [
        ("                    if save_info_first:\n                        self.save_info_to_hist(info)\n                    try:", "                    if True:\n                        self.save_info_to_hist(info)\n                    try:"),
        ("                    if not save_info_first:\n                        self.save_info_to_hist(info)\n\n                    clean_up", "                    if False:\n                        self.save_info_to_hist(info)\n\n                    clean_up"),
    ]),
    Mutant("c16-no-temp-file", "C16", T, [
        ('with tempfile.NamedTemporaryFile("wb", dir=dir_, delete=False) as f:', 'with open(path, "wb") as f:'),
        ("replaces.append((f.name, path))", "pass"),
    ]),
    Mutant("c16-no-refusal", "C16", T, [
        ("if model_pth == best_model_pth:", "if False:"),
        ("elif optim_pth == best_optim_pth:", "elif False:"),
    ]),
    Mutant("c16-cleanup-forgets-old-best", "C16", T, [
        ("                    if last_best != cur_best:\n                        clean_up |=", "                    if False:\n                        clean_up |="),
    ]),
    Mutant("c16-revert-D1-header", "C16", T, [
        ("            ) or not os.path.getsize(self.state_csv_path)\n", "            )\n"),
    ]),
    Mutant("c16-revert-D11-orphan", "C16", T, [
        ("                    pth in recorded and os.path.exists(pth)\n", "                    os.path.exists(pth)\n"),
    ]),
    Mutant("c16-cleanup-before-history", "C16", T, [
        ("                    if not save_info_first:\n                        self.save_info_to_hist(info)\n\n                    clean_up = {last_model_pth, last_optim_pth}",
         "                    clean_up = {last_model_pth, last_optim_pth}"),
        ("                    self._clean_up_files(*tuple(clean_up))\n", "                    self._clean_up_files(*tuple(clean_up))\n                    if not save_info_first:\n                        self.save_info_to_hist(info)\n"),
    ]),
    # ---- C15 -------------------------------------------------------------------------
    Mutant("c15-rlr-reference-is-previous-epoch", "C15", T, [
        ('rlr_epoch = epoch - self.params.reduce_lr_patience + info["rlr_patience_cd"] - 1', "rlr_epoch = epoch - 1"),
    ]),
    Mutant("c15-es-threshold-inclusive", "C15", T, [
        ('max(es_info["val_met"] - val_met, 0) < self.params.early_stopping_threshold', 'max(es_info["val_met"] - val_met, 0) <= self.params.early_stopping_threshold'),
    ]),
    Mutant("c15-no-cooldown", "C15", T, [
        ('info["rlr_resume_cd"] = self.params.reduce_lr_cooldown', 'info["rlr_resume_cd"] = 0'),
    ]),
    Mutant("c15-lr-not-written-to-optimizer", "C15", T, [
        ('                        param_group["lr"] = new_lr\n', '                        pass\n'),
    ]),
    Mutant("c15-burnin-off-by-one", "C15", T, [
        ('"es_resume_cd": self.params.early_stopping_burnin,', '"es_resume_cd": max(self.params.early_stopping_burnin - 1, 0),'),
    ]),
    Mutant("c15-reread-swaps-countdowns", "C15", T, [
        ('"rlr_resume_cd": int(row["rlr_resume_cd"]),', '"rlr_resume_cd": int(row["es_resume_cd"]),'),
    ]),
    Mutant("c15-user-entry-type-dropped", "C15", T, [
        ("self.cache_hist[epoch][name] = type_(row[name])", "self.cache_hist[epoch][name] = row[name]"),
    ]),
    Mutant("c15-best-epoch-prefers-later-tie", "C15", T, [
        ("            if cur < min_met:\n", "            if cur <= min_met:\n"),
    ]),
    # ---- C13 -------------------------------------------------------------------------
    Mutant("c13-drop-uses-total", "C13", DL, [
        ("return islice(ret, self._rank, self.effective_total, self._world_size)", "return islice(ret, self._rank, self.total, self._world_size)"),
    ]),
    Mutant("c13-len-ignores-rank", "C13", DL, [
        ("            self.effective_total - self._rank + self._world_size - 1\n", "            self.effective_total + self._world_size - 1\n"),
    ]),
    Mutant("c13-seed-includes-rank", "C13", DL, [
        ("rs = np.random.RandomState((self.base_seed, epoch))", "rs = np.random.RandomState((self.base_seed + self._rank, epoch))"),
    ]),
    Mutant("c13-global-rng-permutation", "C13", DL, [
        ("shuffled = rs.permutation(self.total)", "shuffled = np.random.permutation(self.total)"),
    ]),
    Mutant("c13-raise-mode-silently-drops", "C13", DL, [
        ('                if on_uneven_distributed == "raise":\n                    raise ValueError(', '                if on_uneven_distributed == "raise!":\n                    raise ValueError('),
        ('                elif on_uneven_distributed == "drop":', '                elif on_uneven_distributed in ("drop", "raise"):'),
    ]),
    Mutant("c13-iter-forgets-epoch-increment-on-restart", "C13", DL, [
        ("        self.epoch = argcheck.is_int(init_epoch, name=\"init_epoch\")", "        self.epoch = max(argcheck.is_int(init_epoch, name=\"init_epoch\") - 1, 0)"),
    ]),
    # ---- C14 -------------------------------------------------------------------------
    Mutant("c14-drop-incomplete-inverted", "C14", DL, [
        ("        if not self.drop_incomplete:\n            for _, batch in sorted(", "        if self.drop_incomplete:\n            for _, batch in sorted("),
    ]),
    Mutant("c14-feat-padding-one", "C14", DL, [
        ("        feats, padding_value=0, batch_first=batch_first", "        feats, padding_value=1, batch_first=batch_first"),
    ]),
    Mutant("c14-lang-ref-padding-zero", "C14", DL, [
        ("    refs = torch.nn.utils.rnn.pad_sequence(\n        refs, padding_value=config.INDEX_PAD_VALUE, batch_first=batch_first\n    )\n    if has_uttids:\n        return refs, ref_sizes, tuple(uttids)",
         "    refs = torch.nn.utils.rnn.pad_sequence(\n        refs, padding_value=0, batch_first=batch_first\n    )\n    if has_uttids:\n        return refs, ref_sizes, tuple(uttids)"),
    ]),
    Mutant("c14-len-rounds-wrong", "C14", DL, [
        ("                len_ += (count + size - 1) // size", "                len_ += count // size + 1"),
    ]),
    Mutant("c14-bucket-boundary-inclusive", "C14", DL, [
        ("sum(int(l > b) for b in len_bounds)", "sum(int(l >= b) for b in len_bounds[:-1])"),
    ]),
    Mutant("c14-dynamic-size-ignores-bucket", "C14", DL, [
        ("bucket2size = dict((j, m // len_bounds[j]) for j in range(num_buckets))", "bucket2size = dict((j, m // len_bounds[-1]) for j in range(num_buckets))"),
    ]),
    Mutant("c14-revert-D5-len-cache", "C14", DL, [
        ("if self._len is None or self._len[0] != epoch:", "if self._len is None:"),
    ]),
    Mutant("c14-window-left-pad-zero", "C14", DS, [
        ("            window[:left_pad] = feat[0]", "            window[:left_pad] = 0"),
    ]),
    Mutant("c14-sort-ascending", "C14", DL, [
        ("        seq = sorted(seq, key=lambda x: x[0].size(0), reverse=True)\n    seq = list(zip(*seq))", "        seq = sorted(seq, key=lambda x: x[0].size(0))\n    seq = list(zip(*seq))"),
    ]),
    Mutant("c14-revert-D6-empty-ref", "C14", DS, [
        ("            ref = torch.cat([ref.new_full((1,), sos), ref], 0)", "            ref = torch.cat([torch.full_like(ref[:1], sos), ref], 0)"),
    ]),
    Mutant("c14-revert-D17-lang-bucket-len", "C14", DL, [
        ("((x if isinstance(x, torch.Tensor) else x[0]).size(0), i)", "(x[0].size(0), i)"),
    ]),
    Mutant("c14-ali-sizes-from-refs", "C14", DL, [
        ("    feat_sizes = torch.tensor([x.size(0) for x in feats])", "    feat_sizes = torch.tensor([max(x.size(0) - 1, 1) for x in feats])"),
    ]),
    # ---- C12 -------------------------------------------------------------------------
    Mutant("c12-ali-tolerance-off-by-one", "C12", DS, [
        ("if fix is not None and T + fix >= ali.shape[0] > T:", "if fix is not None and T + fix > ali.shape[0] > T:"),
    ]),
    Mutant("c12-ref-tolerance-off-by-one", "C12", DS, [
        ("if fix is not None and r[1] <= T >= r[2] - fix:", "if fix is not None and r[1] <= T >= r[2] - fix - 1:"),
    ]),
    Mutant("c12-rejects-empty-segments", "C12", DS, [
        ("                            elif r[2] < r[1]:\n                                raise ValueError(msg)", "                            elif r[2] <= r[1]:\n                                raise ValueError(msg)"),
    ]),
    Mutant("c12-half-open-fix-keeps-end", "C12", DS, [
        ("                                    r[1:] = -1\n", "                                    r[1] = -1\n"),
    ]),
    Mutant("c12-ref-fix-not-written", "C12", DS, [
        ("                if write_back:\n                    torch.save(ref, os.path.join(dir_, fn))", "                if False:\n                    torch.save(ref, os.path.join(dir_, fn))"),
    ]),
    Mutant("c12-width-not-checked", "C12", DS, [
        ("        elif validate and F != num_filts:", "        elif False and F != num_filts:"),
    ]),
    Mutant("c12-prefix-ignored-in-discovery", "C12", DS, [
        ("        if x.startswith(file_prefix) and x.endswith(file_suffix)\n    )", "        if x.endswith(file_suffix)\n    )"),
    ]),
    Mutant("c12-hyp-strips-first-sos", "C12", DS, [
        ("            sos_idx = sos_idxs[-1].item()", "            sos_idx = sos_idxs[0].item()"),
    ]),
    Mutant("c12-hyp-keeps-eos", "C12", DS, [
        ("            hyp = hyp[:eos_idx]", "            hyp = hyp[: eos_idx + 1]"),
    ]),
    Mutant("c12-segs-counts-frames", "C12", DS, [
        ("                    segs[class_idx] = segs.get(class_idx, 0) + 1", "                    segs[class_idx] = segs.get(class_idx, 0) + count"),
    ]),
    Mutant("c12-revert-D16-total-tokens", "C12", DS, [
        ("            if info:\n                info_dict.setdefault(\"total_tokens\", 0)\n", ""),
    ]),
    Mutant("c12-revert-D18-fix-zero", "C12", "pydrobert.torch.command_line", [
        ("options.strict or options.fix is not None, options.fix", "options.strict or options.fix, options.fix"),
    ]),
    Mutant("c12-revert-D6-empty-2d-ref", "C12", DS, [
        ("            sos_sym = ref.new_full((1, ref.size(1)), -1)\n            sos_sym[0, 0] = sos\n            ref = torch.cat([sos_sym, ref], 0)",
         "            sos_sym = torch.full_like(ref[0], -1)\n            sos_sym[0] = sos\n            ref = torch.cat([sos_sym.unsqueeze(0), ref], 0)"),
    ]),
    Mutant("c12-mixed-ref-dims-accepted", "C12", DS, [
        ("                    if ref_is_2d is False:\n                        raise ValueError(", "                    if ref_is_2d is None:\n                        raise ValueError("),
    ]),
    # ---- C18 -------------------------------------------------------------------------
    Mutant("c18-count-per-chunk", "C18", FE, [
        ("        count += x.size(1)", "        count += 1"),
    ]),
    Mutant("c18-bessel-inverted", "C18", FE, [
        ("            var *= count / (count - 1)", "            var *= (count - 1) / count"),
    ]),
    Mutant("c18-accumulate-flattens-wrong-axis", "C18", FE, [
        ("        x = x.transpose(0, self.dim).unsqueeze(-1).flatten(1)\n        count += x.size(1)", "        x = x.transpose(-1, self.dim).unsqueeze(-1).flatten(1)\n        count += x.size(1)"),
    ]),
    Mutant("c18-sumsq-not-squared", "C18", FE, [
        ("        sumsq += x.square().sum(1)", "        sumsq += x.abs().sum(1)"),
    ]),
    Mutant("c18-command-shares-one-accumulator", "C18", "pydrobert.torch.command_line", [
        ("            gid2mvn[gid] = mvn = modules.MeanVarianceNormalization(options.dim)", "            mvn = gid2mvn.setdefault('_shared', None) or modules.MeanVarianceNormalization(options.dim)\n            gid2mvn['_shared'] = None\n            for g_ in list(gid2mvn):\n                gid2mvn[g_] = mvn if g_ != '_shared' else None"),
    ]),
    Mutant("c18-own-stats-unbiased", "C18", FE, [
        ("std = x.transpose(0, dim).unsqueeze(-1).flatten(1).double().std(1, False)", "std = x.transpose(0, dim).unsqueeze(-1).flatten(1).double().std(1, True)"),
    ]),
    Mutant("c18-interim-store-resets", "C18", FE, [
        ("        if delete_stats:\n            self.sum = self.sumsq = self.count = None", "        self.sum = self.sumsq = self.count = None"),
    ]),
]
