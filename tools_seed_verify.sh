#!/bin/bash
# usage: tools_seed_verify.sh <scratch worktree> <seeded dir name> <test files...>
# Confirms a seeded change independently of its author: the demonstration fails with the change and passes
# without it, and the existing tests pass with it.  Writes seeded/<name>/verification.txt.
wt=$1; name=$2; shift 2
out=/verif/seeded/$name/verification.txt
cd $wt || exit 1
git checkout -q -- . 2>/dev/null
git apply /verif/seeded/$name/patch.diff || { echo "patch does not apply" > $out; exit 1; }
cp /verif/seeded/$name/demo.py $wt/demo_check.py
t=$(mktemp -d)
{
echo "worktree: $wt (git worktree of /repo HEAD $(git rev-parse --short HEAD))"
echo "--- demo WITH the change"
PYTHONPATH=$wt/src timeout 400 /venv/bin/python demo_check.py > $t/with 2>&1; rc1=$?
tail -3 $t/with | cut -c1-300
echo "exit code: $rc1"
echo "--- existing tests WITH the change: $@"
PYTHONPATH=$wt/src timeout 2400 /venv/bin/python -m pytest -q -p no:cacheprovider -n 2 "$@" 2>&1 | tail -2
git apply -R /verif/seeded/$name/patch.diff
echo "--- demo WITHOUT the change"
PYTHONPATH=$wt/src timeout 400 /venv/bin/python demo_check.py > $t/without 2>&1; rc2=$?
tail -2 $t/without | cut -c1-300
echo "exit code: $rc2"
echo "RESULT demo_fails_with=$([ $rc1 -ne 0 ] && echo yes || echo no) demo_passes_without=$([ $rc2 -eq 0 ] && echo yes || echo no)"
} > $out 2>&1
rm -rf $t
