"""C15: training control decisions follow the stated rules and survive restarts."""
import copy
import random

from simkit.core import HarnessError, RunResult, short_hash
from simkit.simfs import patched
from . import training_sim as ts

ID = "C15"
LEVEL = {"quick": "exploration", "thorough": "exploration"}
DEFAULT_LR = 0.5  # lr the harness gives the optimizer (make_model_and_optimizer)
LR_TOL = 1e-3


def close(a, b, tol=LR_TOL):
    return abs(a - b) <= tol * max(abs(a), abs(b))


def run(sc, res, restarts):
    """restarts: dict epoch -> 'load' | 'noload' (restart after that epoch)."""
    model = ts.ControlModel(sc["params"], DEFAULT_LR)
    snapshots = {0: copy.deepcopy(model)}
    redo = {int(k): v for k, v in (sc.get("redo") or {}).items()}
    job = ts.Job(sc, res)
    fs = job.fs
    n = job.n
    vals = []
    w = ts.quiet()
    try:
        with patched(fs):
            fs.start_process(None)
            job.construct()
            e = 0
            while e < n:
                if not job.ctrl.continue_training():
                    res.violate("restart.continue", f"continue_training() is False at epoch {e} although the run had not been told to stop")
                    return job
                e += 1
                try:
                    cont = job.one_epoch()
                except ts.Refused:
                    res.bump("probe.refused_overwrite_best")
                    return job
                res.steps += 1
                tm, vm = sc["metrics"][e - 1]
                vals.append(vm)
                m_cont, m_lr, reduced = model.step(vm)
                snapshots[e] = copy.deepcopy(model)
                if e in redo and not model.borderline:
                    # run epoch e again from epoch e-1's checkpoint, with other metrics
                    tm, vm = redo.pop(e)
                    sc["metrics"][e - 1] = [tm, vm]
                    vals[-1] = vm
                    job.ctrl.load_model_and_optimizer_for_epoch(job.model, job.opt, e - 1)
                    ts.stamp(sc, job.model, job.opt, e)
                    cont = job.ctrl.update_for_epoch(job.model, job.opt, tm, vm, epoch=e, best_is_train=sc["best_is_train"], **job.entries_for(e))
                    job.decisions[e] = (bool(cont), job.opt.param_groups[0]["lr"])
                    model = copy.deepcopy(snapshots[e - 1])
                    m_cont, m_lr, reduced = model.step(vm)
                    snapshots[e] = copy.deepcopy(model)
                    res.bump("fault.epoch_redone")
                    res.log.add("redo", e)
                if model.borderline:
                    res.bump("skipped_borderline_epsilon")
                    res.borderline = True
                    return job
                if reduced:
                    res.bump("probe.lr_reduced")
                res.log.add("epoch", e, "cont", cont, "lr", f"{m_lr:.5e}", model.countdowns())
                if bool(cont) != m_cont:
                    why = "stopped" if not cont else "continued"
                    res.violate("decision.stop", f"epoch {e}: controller {why} but the rules say continue={m_cont}", got=bool(cont))
                    return job
                if not m_cont:
                    res.bump("probe.stopped_early" if (not sc["params"]["num_epochs"] or e < sc["params"]["num_epochs"]) else "probe.stopped_budget")
                lrs = [g["lr"] for g in job.opt.param_groups]
                if not all(close(x, m_lr) for x in lrs):
                    res.violate("decision.lr", f"epoch {e}: optimizer lr {lrs} but the rules say {m_lr}", reduced=reduced)
                    return job
                if not check_info(job, res, model, e, vals):
                    return job
                if cont != job.ctrl.continue_training():
                    res.violate("decision.continue-training", f"epoch {e}: update_for_epoch returned {cont}, continue_training() disagrees")
                    return job
                if not cont:
                    break
                kind = restarts.get(e)
                if kind:
                    res.bump(f"fault.restart_{kind}")
                    fs.start_process(None)
                    job.construct(load=(kind == "load"), keep_objects=(kind == "noload"))
                    res.log.add("restart", kind, "after", e)
                    # a restarted controller must see the full history with the model's values
                    if job.ctrl.get_last_epoch() != e:
                        res.violate("restart.last-epoch", f"after restart get_last_epoch() = {job.ctrl.get_last_epoch()}, expected {e}")
                        return job
                    if kind == "load":
                        lrs = [g["lr"] for g in job.opt.param_groups]
                        if not all(close(x, m_lr) for x in lrs):
                            res.violate("restart.lr", f"after restart at epoch {e} the loaded optimizer has lr {lrs}, expected {m_lr}")
                            return job
                    if not check_info(job, res, model, e, vals, after_restart=True):
                        return job
    except HarnessError:
        raise
    except Exception as err:  # noqa
        import traceback

        tb = traceback.extract_tb(err.__traceback__)
        if not any("pydrobert" in f.filename for f in tb):
            raise HarnessError(f"unexpected {type(err).__name__}: {err}") from err
        res.violate("job.exception", f"{type(err).__name__}: {err}", exc=type(err).__name__)
    finally:
        w.__exit__(None, None, None)
    return job


def check_info(job, res, model, e, vals, after_restart=False):
    sc = job.sc
    tag = "restart" if after_restart else "decision"
    info = job.ctrl[e]
    cds = model.countdowns()
    for k, v in cds.items():
        if info[k] != v:
            res.violate(f"{tag}.countdown", f"epoch {e}: {k} = {info[k]}, the rules say {v}", field=k)
            return False
    if not close(info["lr"], model.lr):
        res.violate(f"{tag}.info-lr", f"epoch {e}: recorded lr {info['lr']}, the rules say {model.lr}")
        return False
    if info["val_met"] != vals[-1] or info["train_met"] != sc["metrics"][e - 1][0] or info["epoch"] != e:
        res.violate(f"{tag}.info-metric", f"epoch {e}: recorded metrics/epoch differ from what was passed")
        return False
    for ent in sc["entries"]:
        typ = ts.ENTRY_TYPES[ent["type"]]
        for ep in range(1, e + 1):
            got = job.ctrl.get_info(ep)[ent["name"]]
            want = ent["values"][ep - 1]
            if type(got) is not typ or got != want:
                res.violate(f"{tag}.user-entry", f"epoch {ep}: entry {ent['name']} came back as {got!r} ({type(got).__name__}), stored {want!r} ({ent['type']})", type=ent["type"])
                return False
    # best epoch: lowest recorded value, earliest on ties
    key = 0 if sc["best_is_train"] else 1
    seq = [m[key] for m in sc["metrics"][:e]]
    want_best = 1 + min(range(len(seq)), key=lambda i: (seq[i], i))
    got_best = job.ctrl.get_best_epoch(sc["best_is_train"])
    if got_best != want_best:
        res.violate(f"{tag}.best-epoch", f"epoch {e}: get_best_epoch = {got_best}, expected {want_best}")
        return False
    return True


_TWIN = {}


def execute(sc):
    res = RunResult()
    res.borderline = False
    sc = copy.deepcopy(sc)
    orig_metrics = copy.deepcopy(sc["metrics"])
    restarts = {int(k): v for k, v in (sc.get("restarts") or {}).items()}
    key = short_hash({k: v for k, v in sc.items() if k != "restarts"})
    job = run(sc, res, restarts)
    if res.violations or res.borderline:
        return res
    got = ts.csv_rows(job.fs, sc) if sc["csv"] else None
    rows = got[0] if got else []
    n_re = sum(1 for k in restarts if k < len(rows))
    res.nontrivial = n_re > 0 and len(rows) >= 2
    if not restarts:
        tw = {"rows": rows, "decisions": dict(job.decisions), "text": got[1] if got else ""}
        if len(_TWIN) > 64:
            _TWIN.clear()
        _TWIN[key] = tw
        res.nontrivial = len(rows) >= 3
        return res
    tw = _TWIN.get(key)
    if tw is None:
        r2 = RunResult()
        r2.borderline = False
        sc2 = copy.deepcopy(sc)
        sc2["metrics"] = copy.deepcopy(orig_metrics)
        j2 = run(sc2, r2, {})
        if r2.violations or r2.borderline:
            res.violations = r2.violations
            return res
        g2 = ts.csv_rows(j2.fs, sc) if sc["csv"] else None
        tw = {"rows": g2[0] if g2 else [], "decisions": dict(j2.decisions), "text": g2[1] if g2 else ""}
        _TWIN[key] = tw
    if len(rows) != len(tw["rows"]) or any(not ts.rows_equal(a, b) for a, b in zip(rows, tw["rows"])):
        bad = next((i for i, (a, b) in enumerate(zip(rows, tw["rows"])) if not ts.rows_equal(a, b)), min(len(rows), len(tw["rows"])))
        res.violate("twin.history", f"history of the interrupted run differs from the uninterrupted one at row {bad + 1}")
        return res
    for e, (cont, lr) in job.decisions.items():
        tc, tlr = tw["decisions"][e]
        if cont != tc or not close(lr, tlr):
            res.violate("twin.decisions", f"epoch {e}: (cont, lr) = {(cont, lr)} vs uninterrupted {(tc, tlr)}")
            break
    if any(len(r) != len(tw["rows"][0]) for r in rows):
        res.violate("twin.columns", "rows with differing columns")
    return res


def generate(rng, tier, index):
    sc = ts.gen_training_scenario(rng, max_epochs=12)
    # history-only and checkpointing jobs
    mode = rng.randrange(6)
    if mode == 0:
        sc["state_dir"] = None
    # restart pattern for the sampled case
    n = len(sc["metrics"])
    p = rng.choice([0.15, 0.3, 0.5, 0.8])
    re = {}
    for e in range(1, n):
        if rng.random() < p:
            re[str(e)] = "load" if (sc["state_dir"] is not None and rng.random() < 0.75) else "noload"
    sc["restarts"] = re
    if mode == 1:
        # no history file: the record lives in memory only (no restart can follow; the rules still apply)
        sc["csv"] = None
        sc["restarts"] = {}
    sc["_plan_seed"] = rng.randrange(1 << 30)
    # REDO(k): epoch k is run again after reloading epoch k-1's checkpoint (update_for_epoch(..., epoch=k)),
    # which appends a second row for k to the append-only history; the later row is the valid one
    if (sc["csv"] is not None and sc["state_dir"] is not None and not sc["params"]["keep_last_and_best_only"] and "{epoch" in sc["params"]["saved_model_fmt"]
            and "{epoch" in sc["params"]["saved_optimizer_fmt"] and n >= 2 and rng.random() < 0.3):
        k = rng.randrange(2, n + 1)
        sc["redo"] = {str(k): [rng.choice(ts.GRID), rng.choice(ts.GRID)]}
    return sc


def concrete_cases(base, tier):
    base = dict(base)
    rng = random.Random(base.pop("_plan_seed", 0))
    n = len(base["metrics"])
    kind = "load" if base["state_dir"] is not None else "noload"
    yield dict(base, restarts={})
    if base["csv"] is None:
        return
    if base["restarts"]:
        yield dict(base)
    yield dict(base, restarts={str(e): kind for e in range(1, n)})
    ks = list(range(1, n))
    if tier != "thorough":
        rng.shuffle(ks)
        ks = ks[:3]
    for k in ks:
        yield dict(base, restarts={str(k): kind})
    if tier == "thorough":
        for _ in range(4):
            re = {str(e): rng.choice(["load", "noload"]) if base["state_dir"] is not None else "noload" for e in range(1, n) if rng.random() < 0.5}
            if re:
                yield dict(base, restarts=re)


def shrink_candidates(sc):
    sc = copy.deepcopy(sc)
    n = len(sc["metrics"])
    re = sc.get("restarts") or {}
    for k in list(re):
        c = copy.deepcopy(sc)
        del c["restarts"][k]
        yield c
    for m in (1, 2, 3, n // 2, n - 1):
        if 1 <= m < n:
            c = copy.deepcopy(sc)
            c["metrics"] = c["metrics"][:m]
            c["restarts"] = {k: v for k, v in re.items() if int(k) < m}
            for ent in c["entries"]:
                ent["values"] = ent["values"][:m]
            yield c
    if sc["entries"]:
        c = copy.deepcopy(sc)
        c["entries"] = []
        yield c
    defaults = {
        "num_epochs": None, "log10_learning_rate": None, "early_stopping_threshold": 0.0, "early_stopping_patience": 1,
        "early_stopping_burnin": 0, "reduce_lr_threshold": 0.0, "reduce_lr_factor": 0.5, "reduce_lr_patience": 1,
        "reduce_lr_cooldown": 0, "reduce_lr_burnin": 0, "reduce_lr_log10_epsilon": -8,
        "keep_last_and_best_only": False, "saved_model_fmt": "model_{epoch:03d}.pt", "saved_optimizer_fmt": "optim_{epoch:03d}.pt",
    }
    for k, v in defaults.items():
        if sc["params"].get(k) != v:
            c = copy.deepcopy(sc)
            c["params"][k] = v
            yield c
    for k in re:
        if re[k] != "noload":
            c = copy.deepcopy(sc)
            c["restarts"][k] = "noload"
            yield c
    if sc["best_is_train"]:
        c = copy.deepcopy(sc)
        c["best_is_train"] = False
        yield c
    for i in range(n):
        for j in (0, 1):
            for v in (1.0, 2.0):
                if sc["metrics"][i][j] != v:
                    c = copy.deepcopy(sc)
                    c["metrics"][i][j] = v
                    yield c
                    break


def sample_repr(sc):
    return {
        "params": {k: v for k, v in sc["params"].items() if not k.startswith("saved_")},
        "val_metrics": [m[1] for m in sc["metrics"]],
        "restarts_after_epoch": sc.get("restarts"),
        "state_dir": sc["state_dir"],
    }


GROUP_KEYS = ("oracle", "field", "exc", "got", "type")
BUDGET = {"quick": 9000, "thorough": 30000}
WALL_CAP = {"quick": 240, "thorough": 3000}
RULE = (
    "run i derives (controller parameters, metric history of 1..12 epochs on the k/8 grid, user entries, formats, layout) from "
    "sha256(VERIF_SEED/C15/i) and is expanded into restart histories: never, a sampled subset of epoch boundaries, after every epoch, after "
    "exactly epoch k (quick: 3 sampled k; thorough: every k plus 4 random subsets mixing load/no-load restarts). One evaluation = one history "
    "executed with the reference model stepping alongside. Non-trivial = at least one restart happened before the run ended and >= 2 epochs were "
    "recorded (uninterrupted twin: >= 3 epochs); distinct = distinct scenario hash."
)
STATE_MEASURE = "n/a (see probes: lr reductions, early stops, budget stops, refusals)"
COMPONENTS = {
    "real": ["pydrobert.torch.training (all of it)", "torch.save/torch.load", "csv", "torch.optim SGD/Adam"],
    "stub": ["file system: simkit.simfs.SimFS", "tempfile.NamedTemporaryFile"],
    "reference_model": ["props/training_sim.py::Criterion, ControlModel (written from the property statement)"],
}
ASSUMPTIONS = [
    "metrics on the grid k/8, k=0..32: exact in binary and in the CSV's 5 significant digits, thresholds from {0,1/8,3/16,1/4,1/2}",
    "learning rates compared with relative tolerance 1e-3 (the CSV stores 5 significant digits; DESIGN.md section 7)",
    "scenarios whose lr change is within 0.2% of the 'negligible' epsilon are skipped (counted as skipped_borderline_epsilon)",
    "the workload stops when told to stop; training past a stop is outside the property",
    "restart without reloading (no state_dir, or RESTART_NOLOAD) keeps the live model/optimizer objects",
]


def reset_caches():
    _TWIN.clear()
