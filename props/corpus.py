"""Deterministic tiny corpora written into a SimFS data directory (C12, C14, C18)."""
import random

import numpy as np
import torch

from simkit.simfs import ROOT


def utt_name(rng, i, style):
    if style == 0:
        return f"u{i:02d}"
    if style == 1:
        return f"utt-{i}"
    if style == 2:  # ids that are prefixes of each other / contain dots
        return "a" * (i + 1) if i < 4 else f"a.{i}"
    return rng.choice(["spk", "x", "rec"]) + f"_{i}"


def feat_tensor(uid, T, F, salt, dtype=torch.float32):
    r = random.Random(uid * 7919 + salt)
    vals = [[float(r.randrange(-40, 41)) * 0.25 for _ in range(F)] for _ in range(T)]
    return torch.tensor(vals, dtype=dtype).reshape(T, F)


def ali_tensor(uid, T, salt):
    r = random.Random(uid * 104729 + salt)
    out, cur = [], r.randrange(5)
    for _ in range(T):
        if r.random() < 0.4:
            cur = r.randrange(5)
        out.append(cur)
    return torch.tensor(out, dtype=torch.long).reshape(T)


def ref_tensor(uid, R, T, two_d, salt, vocab=None):
    """Tokens encode the utterance: 64*(uid+1) + j; or, with vocab=V, are drawn from range(V)
    so that token classes recur within and across utterances."""
    r = random.Random(uid * 1299709 + salt)
    toks = [64 * (uid + 1) + j for j in range(R)] if vocab is None else [r.randrange(vocab) for _ in range(R)]
    if not two_d:
        return torch.tensor(toks, dtype=torch.long).reshape(R)
    rows = []
    for t in toks:
        k = r.random()
        if k < 0.25 or T == 0:
            rows.append([t, -1, -1])
        else:
            s = r.randrange(0, T + 1)
            e = r.randrange(s, T + 1)
            rows.append([t, s, e])
    return torch.tensor(rows, dtype=torch.long).reshape(R, 3)


def write_spect_dir(path, utts, *, prefix="", suffix=".pt", feat_subdir="feat", ali_subdir="ali", ref_subdir="ref", with_ali=True, with_ref=True):
    """utts: list of dict(id, feat, ali, ref).  Uses torch.save/os (patched -> SimFS)."""
    import os

    os.makedirs(f"{path}/{feat_subdir}", exist_ok=True)
    if with_ali:
        os.makedirs(f"{path}/{ali_subdir}", exist_ok=True)
    if with_ref:
        os.makedirs(f"{path}/{ref_subdir}", exist_ok=True)
    for u in utts:
        torch.save(u["feat"], f"{path}/{feat_subdir}/{prefix}{u['id']}{suffix}")
        if with_ali and u.get("ali") is not None:
            torch.save(u["ali"], f"{path}/{ali_subdir}/{prefix}{u['id']}{suffix}")
        if with_ref and u.get("ref") is not None:
            torch.save(u["ref"], f"{path}/{ref_subdir}/{prefix}{u['id']}{suffix}")


# ---------------------------------------------------------------------------------------
# independent reference pipeline for the dataset transforms (float64 numpy)
# ---------------------------------------------------------------------------------------
def ref_mvn(x, mean=None, std=None, eps=None):
    import pydrobert.torch.config as config

    eps = config.TINY if eps is None else eps
    x = np.asarray(x, dtype=np.float64)
    m = x.mean(0) if mean is None else np.asarray(mean, dtype=np.float64)
    xc = x - m
    s = np.sqrt((xc**2).mean(0) - xc.mean(0) ** 2) if std is None else np.asarray(std, dtype=np.float64)
    return xc / np.maximum(s, eps)


def ref_deltas(x, order, width=2):
    """Recursive regression formula on the input extended by replicate padding; (T, F) ->
    (T, (order+1)*F), order-major."""
    x = np.asarray(x, dtype=np.float64)
    T, F = x.shape
    if order == 0:
        return x.copy()
    P = width * order
    ext = np.concatenate([np.repeat(x[:1], P, 0), x, np.repeat(x[-1:], P, 0)], 0) if T else x
    denom = 2.0 * sum(w * w for w in range(1, width + 1))
    seqs = [ext]
    for _ in range(order):
        a = seqs[-1]
        L = a.shape[0] - 2 * width
        d = np.zeros((L, F))
        for i in range(L):
            c = i + width
            d[i] = sum(w * (a[c + w] - a[c - w]) for w in range(1, width + 1)) / denom
        seqs.append(d)
    outs = []
    for k, s in enumerate(seqs):
        off = width * (order - k)
        outs.append(s[off : off + T])
    return np.concatenate(outs, 1)
