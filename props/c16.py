"""C16: a crash during an epoch update never loses the last or best checkpoint."""
import copy
import posixpath
from string import Formatter

import torch

from simkit.core import SimCrash, HarnessError, RunResult, short_hash
from simkit.simfs import SimFS, patched
from . import training_sim as ts

ID = "C16"
LEVEL = {"quick": "fault_enumeration", "thorough": "fault_enumeration"}


def fmt_has_epoch(fmt):
    return any(x[1] == "epoch" for x in Formatter().parse(fmt))


paths_for = ts.paths_for
collides = ts.collides


def state_files(fs, sc):
    pre = posixpath.normpath(sc["state_dir"]) + "/"
    csvp = posixpath.normpath(sc["csv"])
    return {k for k in fs.files if k.startswith(pre) and k != csvp}


def best_epoch(rows, best_is_train):
    """Lowest metric, earliest on ties; rows are dicts of strings from the CSV."""
    key = "train_met" if best_is_train else "val_met"
    best, bv = 0, float("inf")
    for r in rows:
        v = float(r[key])
        if v < bv:
            best, bv = int(r["epoch"]), v
    return best


# ---------------------------------------------------------------------------------------
def check_after_update(job, res, crashed_before):
    """Invariants 4 and 5 after a completed update."""
    sc, fs, ctrl = job.sc, job.fs, job.ctrl
    last = ctrl.get_last_epoch()
    got = ts.csv_rows(fs, sc)
    if got is None:
        res.violate("update.history-missing", f"no history file after completed update {last}")
        return
    rows, _ = got
    if not rows or int(rows[-1]["epoch"]) != last:
        res.violate("update.history-row", f"last CSV row is not epoch {last}")
        return
    best = best_epoch(rows, sc["best_is_train"])
    files = state_files(fs, sc)
    if not crashed_before:
        stray = set(fs.files) - files - {posixpath.normpath(sc["csv"])}
        if stray:
            res.violate("update.stray-files", f"after update {last} files outside the state directory were created: {sorted(stray)[:3]}")
            return
    unique = fmt_has_epoch(sc["params"]["saved_model_fmt"]) and fmt_has_epoch(sc["params"]["saved_optimizer_fmt"])
    if sc["params"]["keep_last_and_best_only"]:
        want = set(paths_for(sc, last)) | (set(paths_for(sc, best)) if best else set())
        if not crashed_before:
            if files != want:
                res.violate(
                    "keep2.exact",
                    f"after update {last} (best {best}) state dir holds {sorted(files)} expected {sorted(want)}",
                    extra=sorted(posixpath.basename(f) for f in files - want)[:4],
                    missing=sorted(posixpath.basename(f) for f in want - files)[:4],
                )
        else:
            if not want <= files:
                res.violate("keep2.superset", f"after update {last} missing {sorted(want - files)}")
            res.bump("orphans_after_crash", len(files - want))
    else:
        want = set()
        for r in rows:
            want |= set(paths_for(sc, int(r["epoch"])))
        if not want <= files:
            res.violate("keepall.present", f"after update {last} missing {sorted(want - files)}")


def expected_loadable(sc, rows):
    """Epochs whose checkpoints must be loadable with their own stamp given the recorded rows: the
    last, the best and (if everything is kept) every recorded epoch, unless a LATER recorded epoch
    was written to the same path (formats that do not separate epochs, section 7)."""
    if not rows:
        return {}
    epochs = [int(r["epoch"]) for r in rows]
    last = epochs[-1]
    best = best_epoch(rows, sc["best_is_train"])
    cand = {}
    if best:
        cand[best] = "best"
    if not sc["params"]["keep_last_and_best_only"]:
        for e in epochs:
            cand.setdefault(e, "recorded")
    cand[last] = "last"
    out = {}
    for e, role in cand.items():
        later = [l for l in epochs if l > e]
        if not collides(sc, e, later):
            out[e] = role
    return out


def check_recovery(job, res, twin_rows, ctx):
    """Oracles 1-3 after a crash and restart.  Returns False if the job cannot go on."""
    from pydrobert.torch.training import TrainingStateController

    sc, fs = job.sc, job.fs
    # 1. construction succeeds, history is a row prefix of H*
    try:
        job.construct(load=False)
    except Exception as e:  # noqa
        res.violate("recover.construct", f"constructing a controller after the crash raised {type(e).__name__}: {e}", exc=type(e).__name__, **ctx)
        return False
    got = ts.csv_rows(fs, sc)
    rows = got[0] if got else []
    hist_epochs = []  # what the controller has on record, through its public methods
    try:
        last = job.ctrl.get_last_epoch()
        for k in range(1, last + 1):
            if int(job.ctrl.get_info(k)["epoch"]) == k:
                hist_epochs.append(k)
    except Exception as e:  # noqa
        hist_epochs.append(f"{type(e).__name__}: {e}")
    if hist_epochs != [int(r["epoch"]) for r in rows]:
        res.violate("recover.history-parse", f"controller sees epochs {hist_epochs}, file has {[r['epoch'] for r in rows]}", **ctx)
        return False
    if len(rows) > len(twin_rows) or any(not ts.rows_equal(a, b) for a, b in zip(rows, twin_rows)):
        res.violate("recover.history-prefix", f"history after crash is not a prefix of the uninterrupted one ({len(rows)} rows)", **ctx)
        return False
    res.states.add(fs.digest_state())
    # 2./3. checkpoints of last, best (and all, if all are kept) load and carry their own stamp
    for epoch, role in sorted(expected_loadable(sc, rows).items()):
        for which in ("both", "model"):
            m, o = ts.make_model_and_optimizer(sc)
            ts.ensure_optimizer_state(m, o)
            try:
                if which == "both":
                    job.ctrl.load_model_and_optimizer_for_epoch(m, o, epoch)
                else:
                    job.ctrl.load_model_for_epoch(m, epoch)
            except Exception as e:  # noqa
                res.violate(
                    "recover.load",
                    f"loading {which} for {role} epoch {epoch} after the crash raised {type(e).__name__}: {e}",
                    role=role, exc=type(e).__name__, failed_epoch_in_update=(epoch == job.in_update), **ctx,
                )
                return False
            ms, os_ = ts.read_stamp(sc, m, o)
            bad = None
            if ms != {float(epoch)}:
                bad = ("model", ms)
            elif which == "both" and os_ != {float(epoch)}:
                bad = ("optimizer", os_)
            if bad:
                delta = sorted(int(x - epoch) if float(x).is_integer() and abs(x) < 1e6 else "garbage" for x in bad[1])
                src = [int(x) for x in bad[1] if float(x).is_integer() and 1 <= x < epoch]
                stale = "colliding-earlier-epoch" if len(bad[1]) == 1 and src and set(paths_for(sc, src[0])) & set(paths_for(sc, epoch)) else "other"
                res.violate(
                    "recover.params",
                    f"{role} epoch {epoch}: loaded {bad[0]} carries the stamp of epoch(s) {sorted(bad[1])}",
                    role=role, part=bad[0], delta=str(delta), stale=stale, **ctx,
                )
                return False
            if which == "both":
                ref_groups = ts.make_model_and_optimizer(sc)[1].state_dict()["param_groups"]
                got_groups = o.state_dict()["param_groups"]
                strip = lambda gs: [{k: v for k, v in g.items() if k != "lr"} for g in gs]  # noqa
                if strip(ref_groups) != strip(got_groups):
                    res.violate("recover.hyperparameters", f"{role} epoch {epoch}: optimizer hyper-parameters in the checkpoint differ from those that were saved: {strip(got_groups)}", role=role, **ctx)
                    return False
                want_lr = float(twin_rows[epoch - 1]["lr"])
                lr = o.param_groups[0]["lr"]
                if abs(lr - want_lr) > 1e-3 * max(abs(lr), abs(want_lr)):
                    res.violate("recover.lr", f"{role} epoch {epoch}: optimizer lr {lr} but history says {want_lr}", role=role, **ctx)
                    return False
    # the job goes on with the docstring's loading step
    try:
        job.ctrl.load_model_and_optimizer_for_epoch(job.model, job.opt)
    except Exception as e:  # noqa
        res.violate("recover.load", f"loading last epoch raised {type(e).__name__}: {e}", role="last", exc=type(e).__name__, **ctx)
        return False
    return True


def crash_context(job, n_crashes, fault):
    """Structured description of where the fault landed (for known-finding signatures)."""
    sc, fs = job.sc, job.fs
    csvp = posixpath.normpath(sc["csv"])
    ops = getattr(job, "_cur_update_ops", [])
    # described by what is on the disk, not by the calls that put it there (the history may be appended to,
    # or rewritten and renamed into place; checkpoints may be staged anywhere)
    got = ts.csv_rows(fs, sc)
    def _epoch(r):
        try:
            return int(r["epoch"])
        except (TypeError, ValueError, KeyError):
            return None  # a torn row

    hist = bool(job.in_update) and bool(got) and any(_epoch(r) == job.in_update for r in got[0])
    hist_created = csvp in fs.files and len(fs.files[csvp]) == 0 and any(p == csvp for k, p in ops)
    mine = set(paths_for(sc, job.in_update)) if job.in_update else set()
    ctx = {
        "keep2": bool(sc["params"]["keep_last_and_best_only"]),
        "model_fmt_epoch": fmt_has_epoch(sc["params"]["saved_model_fmt"]),
        "optim_fmt_epoch": fmt_has_epoch(sc["params"]["saved_optimizer_fmt"]),
        "fmt_unique": fmt_has_epoch(sc["params"]["saved_model_fmt"]) and fmt_has_epoch(sc["params"]["saved_optimizer_fmt"]),
        "path_collides": bool(job.in_update) and collides(sc, job.in_update, range(0, job.in_update)),
        "fault": fault["kind"] if fault else None,
        "n_faults": n_crashes,
        "hist_appended": hist,
        "hist_created_empty": hist_created and not hist,
        "replaces_done": sum(1 for k, p in ops if k == "replace" and p in mine),
        "removes_done": sum(1 for k, p in ops if k == "remove"),
        "orphan_present": bool(getattr(job, "_orphan_at_update_start", False)),
        # the update removed a checkpoint file of its own epoch's paths that was there when it began (a file that
        # was never there is another matter)
        "destroyed_destination": bool(job.in_update) and any(p in getattr(job, "_files_at_update_start", ()) and p not in fs.files for p in paths_for(sc, job.in_update)),
    }
    return ctx


# ---------------------------------------------------------------------------------------
def run_job(sc, res, twin=None):
    """Execute the scenario (with its fault plan).  twin = result of the fault-free run."""
    job = ts.Job(sc, res)
    fs = job.fs
    faults = list(sc.get("faults") or [])
    twin_rows = twin["rows"] if twin else None
    gen = 0
    crashed = 0
    ctx = {}
    w = ts.quiet()
    try:
        with patched(fs):
            while True:
                fault = faults[gen] if gen < len(faults) else None
                fs.start_process(fault)
                try:
                    if gen == 0:
                        job.construct()
                    else:
                        if not check_recovery(job, res, twin_rows, ctx):
                            return job
                    while job.ctrl.get_last_epoch() < job.n and job.ctrl.continue_training():
                        e = job.ctrl.get_last_epoch() + 1
                        mp, op = paths_for(sc, e)
                        unique = not collides(sc, e, range(0, e))
                        job._orphan_at_update_start = unique and (mp in fs.files or op in fs.files)
                        before = None if unique else fs.snapshot()
                        mark = len(fs.oplog)
                        job._cur_update_ops = []
                        job._files_at_update_start = set(fs.files)
                        try:
                            cont = job.one_epoch()
                        except ts.Refused:
                            res.bump("probe.refused_overwrite_best")
                            if before is not None and before != fs.snapshot():
                                res.violate("refusal.touched-files", f"refusal at epoch {e} changed files or history")
                            return job
                        finally:
                            job._cur_update_ops = fs.oplog[mark:]
                        res.steps += 1
                        res.log.add("epoch", e, "cont", cont, "ops", len(job._cur_update_ops))
                        probes(job, res, e)
                        check_after_update(job, res, crashed > 0)
                        if res.violations:
                            return job
                        if cont != job.ctrl.continue_training():
                            res.violate("update.cont-mismatch", f"update_for_epoch returned {cont} but continue_training() says otherwise at epoch {e}")
                            return job
                        if not cont:
                            break
                    break
                except BaseException as err:  # noqa
                    # SimCrash, or whatever C++ turned it into on its way through torch's zip
                    # writer: once the FS is dead the process is dead, whatever is unwinding
                    ioerr = fs.fault_fired and fs.fault_fired[0] == "ioerr" and isinstance(err, Exception) and not isinstance(err, HarnessError)
                    if not fs.dead and not ioerr:
                        raise
                    crashed += 1
                    ctx = crash_context(job, crashed, fault)
                    note_fault(job, res, fs, ctx)
                    gen += 1
                    continue
    except HarnessError:
        raise
    except Exception as e:  # noqa
        import traceback

        if fs.fault_fired and fs.fault_fired[0] == "ioerr":
            raise HarnessError(f"exception after an injected io error escaped the process loop: {type(e).__name__}: {e}") from e

        tb = traceback.extract_tb(e.__traceback__)
        where = next((f"{posixpath.basename(f.filename)}:{f.name}" for f in reversed(tb) if "pydrobert" in f.filename), "harness")
        if where == "harness" and not isinstance(e, (FileNotFoundError, KeyError)):
            raise HarnessError(f"unexpected {type(e).__name__}: {e}") from e
        res.violate("job.exception", f"{type(e).__name__} escaped from {where}: {e}", exc=type(e).__name__, where=where, **ctx)
        return job
    finally:
        w.__exit__(None, None, None)
    job.crashed = crashed
    return job


def note_fault(job, res, fs, ctx):
    kind, opkind, path = fs.fault_fired
    res.bump(f"fault.{kind}")
    res.bump(f"fault_at.{opkind}")
    res.log.add("fault", kind, opkind, posixpath.basename(path), "epoch", job.in_update)
    if opkind == "write" and "tmp" in posixpath.basename(path) and len(fs.files.get(path, b"")) > 0:
        res.bump("probe.torn_temp_write")
    if ctx["hist_created_empty"]:
        res.bump("probe.crash_after_empty_history_created")
    if ctx["replaces_done"] == 1:
        res.bump("probe.crash_between_renames")
    if ctx["removes_done"] >= 1 and opkind == "remove":
        res.bump("probe.crash_between_removes")
    if ctx["orphan_present"]:
        res.bump("probe.crash_with_orphan_present")
    if ctx["hist_appended"] and ctx["replaces_done"] < 2:
        res.bump("probe.crash_after_history_before_rename")
    if ctx["n_faults"] >= 2:
        res.bump("probe.multi_fault")


def probes(job, res, e):
    ops = job._cur_update_ops
    csvp = posixpath.normpath(job.sc["csv"])
    kinds = [(k, p == csvp) for k, p in ops]
    try:
        hist_i = next(i for i, (k, c) in enumerate(kinds) if c and k == "write")
        first_rep = next((i for i, (k, c) in enumerate(kinds) if k == "replace"), None)
        if first_rep is not None and hist_i < first_rep:
            res.bump("probe.save_info_first")
    except StopIteration:
        pass
    if any(k == "remove" for k, _ in kinds):
        res.bump("probe.cleanup_ran")
    if sum(1 for k, _ in kinds if k == "remove") >= 3:
        res.bump("probe.best_changed_cleanup")


def final_checks(job, res, twin):
    sc, fs = job.sc, job.fs
    got = ts.csv_rows(fs, sc)
    rows = got[0] if got else []
    trows = twin["rows"]
    if len(rows) != len(trows) or any(not ts.rows_equal(a, b) for a, b in zip(rows, trows)):
        res.violate(
            "final.history",
            f"history after continuing has {len(rows)} rows, uninterrupted run has {len(trows)}; first difference at row "
            f"{next((i for i, (a, b) in enumerate(zip(rows, trows)) if not ts.rows_equal(a, b)), min(len(rows), len(trows)))}",
        )
        return
    if job.refused_at != twin["refused_at"]:
        res.violate("final.refusal", f"refusal at {job.refused_at}, uninterrupted run at {twin['refused_at']}")
    for e, (cont, lr) in job.decisions.items():
        tc, tlr = twin["decisions"][e]
        if cont != tc or abs(lr - tlr) > 1e-3 * max(abs(lr), abs(tlr)):
            res.violate("final.decisions", f"epoch {e}: (cont, lr) = {(cont, lr)} vs uninterrupted {(tc, tlr)}")
            return


_TWIN_CACHE = {}


def run_twin(sc):
    key = short_hash({k: v for k, v in sc.items() if k != "faults"})
    if key in _TWIN_CACHE:
        return _TWIN_CACHE[key]
    base = dict(sc)
    base["faults"] = []
    res = RunResult()
    job = run_job(base, res)
    got = ts.csv_rows(job.fs, sc)
    tw = {
        "rows": got[0] if got else [],
        "refused_at": job.refused_at,
        "decisions": dict(job.decisions),
        "total_ops": job.fs.total_ops,
        "op_kinds": [k for k, _ in job.fs.oplog],
        "violations": res.violations,
        "stats": res.stats,
        "steps": res.steps,
        "log": res.log,
    }
    if len(_TWIN_CACHE) > 64:
        _TWIN_CACHE.clear()
    _TWIN_CACHE[key] = tw
    return tw


def execute(sc):
    """Pure function of the scenario."""
    res = RunResult()
    tw = run_twin(sc)
    if tw["violations"]:
        res.violations = list(tw["violations"])
        res.log = tw["log"]
        res.stats = dict(tw["stats"])
        res.steps = tw["steps"]
        for v in res.violations:
            v.sig.setdefault("fault", None)
        return res
    if not sc.get("faults"):
        res.log = tw["log"]
        res.stats = dict(tw["stats"])
        res.steps = tw["steps"]
        res.nontrivial = tw["steps"] >= 2
        return res
    job = run_job(sc, res, tw)
    fired = sum(v for k, v in res.stats.items() if k.startswith("fault."))
    res.nontrivial = fired > 0
    if not res.violations:
        final_checks(job, res, tw)
    res.log.add("final", job.fs.digest_state())
    return res


# ---------------------------------------------------------------------------------------
def generate(rng, tier, index):
    sc = ts.gen_training_scenario(rng, max_epochs=12, crash=True)
    if rng.random() < 0.2:
        # off-grid metrics that collapse onto each other at the history file's 5 significant
        # digits (plateau near-ties). Decisions must then not depend on metrics at all, so both
        # criteria are switched off; which epoch is "best" is still exercised.
        sc["params"]["early_stopping_threshold"] = 0.0
        sc["params"]["reduce_lr_threshold"] = 0.0
        base = rng.choice([0.123456, 0.5, 1.25, 2.34565])
        sc["metrics"] = [[base * (1 + rng.randrange(-4, 5) * 2e-6), base * (1 + rng.randrange(-4, 5) * 2e-6)] for _ in sc["metrics"]]
        sc["offgrid"] = True
        for k in ("saved_model_fmt", "saved_optimizer_fmt"):
            if "_met" in sc["params"][k]:  # metric-valued names would differ between raw and re-read values
                sc["params"][k] = {"saved_model_fmt": "model_{epoch:03d}.pt", "saved_optimizer_fmt": "optim_{epoch:03d}.pt"}[k]
    sc["_plan"] = "enumerate" if (tier == "thorough" or index % 4 == 0) else "sample"
    sc["_plan_seed"] = rng.randrange(1 << 30)
    return sc


def concrete_cases(base, tier):
    """Expands a base scenario into concrete fault plans."""
    import random

    base = {k: v for k, v in base.items()}
    plan = base.pop("_plan", "sample")
    rng = random.Random(base.pop("_plan_seed", 0))
    tw = run_twin(base)
    K = tw["total_ops"]
    yield dict(base, faults=[])
    if tw["violations"]:
        return
    if plan == "enumerate":
        for k in range(K + 1):
            yield dict(base, faults=[{"kind": "crash", "at": k}])
        # a full disk makes create / write / mkdir fail (renames and removes still succeed): every such
        # call is an io-error point; the many write() calls of an unbuffered torch.save are thinned out
        points = [i for i, k in enumerate(tw.get("op_kinds", [])) if k in ("create", "write", "mkdir")]
        if len(points) > 60:
            points = sorted(rng.sample(points, 60))
        for k in points:
            yield dict(base, faults=[{"kind": "ioerr", "at": k}])
        n2 = (3 * K if tier == "thorough" else K // 2)
        for _ in range(n2):
            k1 = rng.randrange(K + 1)
            k2 = rng.randrange(0, max(1, min(K, 40)))
            fl = [{"kind": rng.choice(["crash", "crash", "crash", "ioerr"]), "at": k1}, {"kind": "crash", "at": k2}]
            if rng.random() < 0.3:
                fl.append({"kind": "crash", "at": rng.randrange(0, max(1, min(K, 40)))})
            yield dict(base, faults=fl)
    else:
        for _ in range(8):
            nf = rng.choice([1, 1, 2, 2, 3])
            fl = []
            for j in range(nf):
                hi = K + 1 if j == 0 else max(1, min(K, 40))
                fl.append({"kind": rng.choice(["crash", "crash", "crash", "ioerr"]), "at": rng.randrange(hi)})
            yield dict(base, faults=fl)


def shrink_candidates(sc):
    """Simpler variants of a failing concrete scenario, most aggressive first."""
    sc = copy.deepcopy(sc)
    n = len(sc["metrics"])
    # fewer faults
    for i in range(len(sc["faults"])):
        c = copy.deepcopy(sc)
        del c["faults"][i]
        yield c
    # fewer epochs
    for m in (1, 2, 3, n // 2, n - 1):
        if 1 <= m < n:
            c = copy.deepcopy(sc)
            c["metrics"] = c["metrics"][:m]
            for ent in c["entries"]:
                ent["values"] = ent["values"][:m]
            yield c
    if sc["entries"]:
        c = copy.deepcopy(sc)
        c["entries"] = []
        yield c
    defaults = {
        "num_epochs": None, "log10_learning_rate": None, "early_stopping_threshold": 0.0, "early_stopping_patience": 1,
        "early_stopping_burnin": 0, "reduce_lr_threshold": 0.0, "reduce_lr_factor": 0.5, "reduce_lr_patience": 1,
        "reduce_lr_cooldown": 0, "reduce_lr_burnin": 0, "reduce_lr_log10_epsilon": -8,
    }
    for k, v in defaults.items():
        if sc["params"].get(k) != v:
            c = copy.deepcopy(sc)
            c["params"][k] = v
            yield c
    if sc["bufsize"] != 1 << 16:
        c = copy.deepcopy(sc)
        c["bufsize"] = 1 << 16
        yield c
    if sc["best_is_train"]:
        c = copy.deepcopy(sc)
        c["best_is_train"] = False
        yield c
    if sc["optimizer"] != "sgd":
        c = copy.deepcopy(sc)
        c["optimizer"] = "sgd"
        yield c
    for i, f in enumerate(sc["faults"]):
        if f["kind"] != "crash":
            c = copy.deepcopy(sc)
            c["faults"][i]["kind"] = "crash"
            yield c
        for at in (0, f["at"] // 2, f["at"] - 1):
            if 0 <= at < f["at"]:
                c = copy.deepcopy(sc)
                c["faults"][i]["at"] = at
                yield c
    # simpler metrics
    for i in range(n):
        for j in (0, 1):
            if sc["metrics"][i][j] != 1.0:
                c = copy.deepcopy(sc)
                c["metrics"][i][j] = 1.0
                yield c


def sample_repr(sc):
    return {
        "params": {k: v for k, v in sc["params"].items() if k in ("keep_last_and_best_only", "saved_model_fmt", "saved_optimizer_fmt", "num_epochs", "early_stopping_threshold", "reduce_lr_threshold")},
        "val_metrics": [m[1] for m in sc["metrics"]],
        "bufsize": sc["bufsize"],
        "faults": sc["faults"],
    }


BUDGET = {"quick": 500, "thorough": 3000}
CHUNK = 8  # a base scenario expands into hundreds of fault plans
WALL_CAP = {"quick": 240, "thorough": 3000}
RULE = (
    "run i derives a base scenario (controller parameters, file-name formats, directory layout, metric history on the k/8 grid, "
    "user entries, write-buffer size) from sha256(VERIF_SEED/C16/i); the base is expanded into concrete fault plans: the fault-free twin, "
    "and either every FS-mutating call index as a single crash point plus sampled io-error and 2-3-fault plans (enumerate) or 8 sampled "
    "1-3-fault plans (sample). One evaluation = one concrete (scenario, fault plan) executed to the end incl. recovery checks. "
    "Non-trivial = at least one fault actually fired inside an update (or, for the twin, >= 2 completed updates); distinct = distinct scenario hash."
)
STATE_MEASURE = "distinct digests of the durable file-system state found at restart after a fault"
COMPONENTS = {
    "real": ["pydrobert.torch.training (all of it)", "torch.save/torch.load serialisation", "csv", "torch.optim SGD/Adam, torch.nn.Linear"],
    "stub": ["file system: simkit.simfs.SimFS (in-memory, process-crash semantics)", "tempfile.NamedTemporaryFile (deterministic names)"],
}
ASSUMPTIONS = [
    "crash = process death: every completed FS call is durable, user-space buffers are lost (no power-loss model; the repo never fsyncs)",
    "history appends are one write() (CPython buffers < 8 KiB): no torn rows",
    "failed deletes are not injected (the code tolerates them by design)",
    "learning rates compared to print precision (rel 1e-3), everything else exactly",
    "loadability after a crash is required for last and best; for every recorded epoch only if everything is kept and both formats contain the epoch field",
]
GROUP_KEYS = ("oracle", "exc", "fmt_unique", "path_collides", "keep2", "hist_appended", "fault", "role", "part")


def reset_caches():
    _TWIN_CACHE.clear()


# ---------------------------------------------------------------------------------------
# Stub-fidelity probe for SimFS (informational): the same job, killed for real
# ---------------------------------------------------------------------------------------
def _real_kill_run(sc, root, k):
    """Child process: runs the job on the real directory ``root`` and os._exit()s just before its
    k-th file-system mutating call.  Mutating calls are counted the way SimFS counts them."""
    import builtins
    import os
    import tempfile

    count = [0]

    def op():
        if count[0] == k:
            os._exit(17)
        count[0] += 1

    real_open, real_mkdir, real_replace, real_remove, real_ntf = builtins.open, os.mkdir, os.replace, os.remove, tempfile.NamedTemporaryFile

    class Proxy:
        def __init__(self, f):
            self._f, self._dirty, self.name = f, False, f.name

        def write(self, b):
            self._dirty = True
            return self._f.write(b)

        def flush(self):
            if self._dirty:
                op()
                self._dirty = False
            self._f.flush()

        def close(self):
            if self._dirty:
                op()
                self._dirty = False
            self._f.close()

        def __enter__(self):
            return self

        def __exit__(self, *a):
            self.close()

        def __getattr__(self, n):
            return getattr(self._f, n)

    def open_(path, mode="r", *a, **kw):
        if isinstance(path, str) and path.startswith(root) and any(c in mode for c in "wax"):
            if not os.path.exists(path):
                op()  # create
            return Proxy(real_open(path, mode, *a, **kw))
        return real_open(path, mode, *a, **kw)

    def mkdir(path, *a, **kw):
        if not os.path.isdir(path):  # os.makedirs(exist_ok=True) calls mkdir on existing directories too
            op()
        return real_mkdir(path, *a, **kw)

    def replace(a, b, **kw):
        op()
        return real_replace(a, b, **kw)

    def remove(p, **kw):
        op()
        return real_remove(p, **kw)

    def ntf(mode="w+b", *a, dir=None, delete=True, **kw):
        op()  # create
        return Proxy(real_ntf(mode, *a, dir=dir, delete=delete, **kw))

    builtins.open, os.mkdir, os.replace, os.remove, os.unlink, tempfile.NamedTemporaryFile = open_, mkdir, replace, remove, remove, ntf
    import warnings

    warnings.simplefilter("ignore")
    real = copy.deepcopy(sc)
    real["state_dir"] = sc["state_dir"].replace("/simfs", root, 1)
    real["csv"] = sc["csv"].replace("/simfs", root, 1)
    os.makedirs(os.path.dirname(real["csv"]), exist_ok=True) if False else None
    d = os.path.dirname(real["csv"])
    # the history file's directory is the user's to create (not a counted op)
    parts = []
    while not os.path.isdir(d):
        parts.append(d)
        d = os.path.dirname(d)
    for p in reversed(parts):
        real_mkdir(p)
    res = RunResult()
    job = ts.Job(real, res, fs=SimFS())  # the SimFS is unused: nothing is patched in this process
    job.construct()
    while job.ctrl.get_last_epoch() < job.n and job.ctrl.continue_training():
        try:
            if not job.one_epoch():
                break
        except ts.Refused:
            break
    os._exit(0)


def _normalise_tree(files):
    """{relative path: description}; temp files (random names on the real FS) are compared as a
    multiset per directory: they are renamed tmp#1, tmp#2, ... in the order of their descriptions."""
    import io as _io
    import re

    def describe(rel, data):
        if len(data) == 0:
            return ("empty",)
        if rel.endswith(".csv"):
            return ("csv", bytes(data).decode())
        try:
            obj = torch.load(_io.BytesIO(bytes(data)), weights_only=False)
            return ("ckpt", repr(sorted((k, (v.tolist() if torch.is_tensor(v) else repr(v))) for k, v in obj.items())) if isinstance(obj, dict) else repr(obj))
        except Exception:
            return ("torn", len(data))

    out, temps = {}, {}
    for rel in sorted(files):
        d = describe(rel, files[rel])
        if re.search(r"(^|/)tmp[^/]*$", rel):
            temps.setdefault(re.sub(r"tmp[^/]*$", "", rel), []).append(d)
        else:
            out[rel] = d
    for dirpart, ds in temps.items():
        for n, d in enumerate(sorted(ds, key=repr)):
            out[f"{dirpart}tmp#{n + 1}"] = d
    return out


def fs_fidelity(seed, n_jobs=12):
    """For a few jobs and EVERY crash index: the files SimFS says survive a crash before FS-op k
    equal the files that really survive os._exit() before the k-th mutating call on tmpfs."""
    import json
    import os
    import shutil
    import time

    from simkit.core import derive_rng
    from simkit import runner

    t0 = time.time()
    rows = []
    i = 0
    while len(rows) < n_jobs and i < 400:
        sc = ts.gen_training_scenario(derive_rng(seed, "fs-fidelity", i), max_epochs=4, crash=True)
        i += 1
        sc["bufsize"] = 1 << 16
        sc["faults"] = []
        if len(sc["metrics"]) < 2 or sc.get("offgrid"):
            continue
        K = run_twin(sc)["total_ops"]
        kinds = run_twin(sc)["op_kinds"]
        order_only = 0
        agree = 0
        first_diff = None
        for k in range(K + 1):
            # simulated
            res = RunResult()
            job = ts.Job(dict(sc, faults=[{"kind": "crash", "at": k}]), res)
            w = ts.quiet()
            try:
                with patched(job.fs):
                    job.fs.start_process({"kind": "crash", "at": k})
                    try:
                        job.construct()
                        while job.ctrl.get_last_epoch() < job.n and job.ctrl.continue_training():
                            if not job.one_epoch():
                                break
                    except ts.Refused:
                        pass
                    except BaseException:
                        if not job.fs.dead:
                            raise
            finally:
                w.__exit__(None, None, None)
            sim = _normalise_tree({p[len("/simfs/"):]: d for p, d in job.fs.files.items()})
            # real
            root = f"/dev/shm/verif-fsfid-{os.getpid()}"
            shutil.rmtree(root, ignore_errors=True)
            os.makedirs(root)
            pid = os.fork()
            if pid == 0:
                try:
                    _real_kill_run(sc, root, k)
                finally:
                    os._exit(3)
            _, status = os.waitpid(pid, 0)
            code = os.waitstatus_to_exitcode(status)
            realfiles = {}
            for dp, _, fns in os.walk(root):
                for fn in fns:
                    full = os.path.join(dp, fn)
                    with open(full, "rb") as f:
                        realfiles[os.path.relpath(full, root)] = f.read()
            shutil.rmtree(root, ignore_errors=True)
            real = _normalise_tree(realfiles)
            ok = sim == real and code in (0, 17)
            if not ok and code in (0, 17) and 0 < k < len(kinds) and kinds[k - 1] == kinds[k] == "remove" and len(sim) == len(real) \
                    and {n: d for n, d in sim.items() if n in real} == {n: d for n, d in real.items() if n in sim}:
                # between two removes: which of the files goes first is the iteration order of a set of
                # path strings, which differs between /simfs/... and the real root
                ok = True
                order_only += 1
            agree += ok
            if not ok and first_diff is None:
                first_diff = {"crash_before_op": k, "child_exit": code, "only_sim": sorted(set(sim) - set(real))[:4], "only_real": sorted(set(real) - set(sim))[:4],
                              "differ": [n for n in sim if n in real and sim[n] != real[n]][:4]}
        rows.append({"job": sample_repr(sc), "crash_points": K + 1, "agree": agree, "agree_up_to_clean_up_order": order_only, "first_difference": first_diff})
        print(f"fs-fidelity job {len(rows)}: {agree}/{K + 1} crash points leave the same files in SimFS and on tmpfs")
    from simkit import fsfid

    micro = fsfid.run()  # the calls SimFS models beyond those the repository makes today
    rep = {"seed": seed, "rows": rows, "micro_workloads": micro, "agree": sum(r["agree"] for r in rows + micro), "total": sum(r["crash_points"] for r in rows + micro), "wall_s": round(time.time() - t0, 1),
           "note": "informational: surviving files after a simulated crash before FS-op k vs after a real os._exit() before the k-th mutating call (mkdir, create, buffered write at flush/close, replace, remove) on tmpfs, for training jobs (rows) and for scripted workloads using mkstemp + fdopen, fsync, temporary directories, directory rename, rmtree, rmdir, copyfile, truncating / appending / unbuffered opens, os.write and pathlib (micro_workloads). How many bytes a buffered file holds back is a knob of SimFS (varied per scenario), not something this probe compares. Never affects any check's exit code"}
    os.makedirs(runner.EVIDENCE, exist_ok=True)
    with open(os.path.join(runner.EVIDENCE, "fs-fidelity.json"), "w") as f:
        json.dump(rep, f, indent=1)
    print(f"selftest-fs-fidelity: {rep['agree']}/{rep['total']} crash points agree ({rep['wall_s']}s)")
    return 0
