"""Regenerates MANIFEST.json from the property modules that exist (run: /venv/bin/python tools_gen_manifest.py)."""
import json, os, sys

HERE = os.path.dirname(os.path.abspath(__file__))
sys.path.insert(0, HERE)
sys.path.insert(0, "/repo/src")

NA = {
    "C01": "edit_distance / prefix_edit_distances are pure tensor functions of their arguments: no schedule, clock, I/O, fault or interleaving for a simulator to control (DESIGN.md section 5)",
    "C02": "error_rate and friends are pure functions; nothing to schedule or to break",
    "C03": "optimal_completion / hard OCD loss are pure functions",
    "C04": "BeamSearch is a deterministic batch algorithm; its 'histories' are its own loop iterations fixed by the input, the LM interface is synchronous call/return",
    "C05": "CTCPrefixSearch: as C04",
    "C06": "LookupLanguageModel / parse_arpa_lm are pure; save/load and ARPA reading appear only as fault-free deterministic compositions",
    "C07": "sequence_log_probs, RandomWalk, SequentialLanguageModelDistribution, ctc_greedy_search are pure functions of (input, RNG state)",
    "C08": "SpecAugment is a pure function of (input, configuration, RNG state)",
    "C09": "pad_variable, chunk_by_slices, pad_masked_sequence, RandomShift are pure functions",
    "C19": "estimators and relaxed distributions: exact sums over a finite sample space, pure functions",
    "C20": "attention layers are pure functions",
}
PENDING = "check under construction in this session (see DESIGN.md section 4); not claimed until it exists"

META = {
    "C16": dict(
        category="fault_enumeration",
        text="Seeded simulation of whole training jobs (real training.py, torch.save/load, csv) on an in-memory file system with process-crash semantics. For each sampled job every FS-mutating call index is enumerated as a crash point (thorough: all jobs; quick: a quarter of the jobs, the rest sampled) and every create/write/mkdir call as an ENOSPC point (Python-level clean-up runs), plus sampled 2-3-fault sequences; after each fault a new controller must construct, see a row-prefix of the uninterrupted history, load last/best (or all) checkpoints with exactly their stamped tensors, (also the optimizer's rate and hyper-parameters) and finish with the uninterrupted history; a fifth of the jobs use off-grid near-tie metrics with both criteria disabled. Evidence over the sampled jobs, exhaustive in crash points per job; not a proof.",
        design="DESIGN.md section 4 (C16), 3.3",
        note="Trusted: SimFS's crash model (completed FS calls durable, user-space buffers lost, rename atomic); reference = fault-free twin run of the same code; learning rates to print precision. Known findings C16-D2a/b (formats without {epoch}) are reported as KNOWN-FINDING, not violations.",
        technique="deterministic simulation with fault injection: in-memory FS, crash-point enumeration, twin-run + stamp oracle, ddmin replay files",
    ),
    "C15": dict(
        category="exploration",
        text="The same simulated training job with restarts at tape-chosen epoch boundaries (thorough: also the canonical patterns never / after every epoch / after exactly epoch k) and an optional REDO of one epoch from the previous checkpoint, judged after every epoch against a 40-line executable reference model of the stopping and learning-rate rules written from the property statement, and at the end against the uninterrupted twin's history file.",
        design="DESIGN.md section 4 (C15)",
        note="Trusted: the reference model (Criterion/ControlModel in props/training_sim.py); metrics on the k/8 grid (exact in the CSV's 5 significant digits); learning rates compared to print precision; RESTART_NOLOAD judged on decisions/history only.",
        technique="deterministic simulation: restart histories on a simulated FS against an executable reference model and an uninterrupted twin",
    ),
    "C13": dict(
        category="exploration",
        text="W simulated ranks (torch.distributed rank/world-size queries answered by the simulator) each own a real sampler; a seeded interleaving of per-rank STEP / STEPX (a consumer taking exactly len() items) / OPEN+DRAIN (iterators held open across other operations, or abandoned) / RESTART / CLONE (copy, deepcopy, pickle) / JUMP / PEEK / LEN operations and global-RNG perturbations is executed, and the recorded (rank, epoch) -> index-list table is judged: same list however reached, len() = number yielded, per-epoch lists pairwise disjoint and covering (or equal counts when dropping), raise iff indivisible under the strict setting, full epoch under ignore, order independent of rank and world size.",
        design="DESIGN.md section 4 (C13), 3.5",
        note="Trusted: SimDist answers is_initialized/get_rank/get_world_size (no process group, no collectives); all ranks share one interpreter and its global RNGs (which is the hazard under test); ranks of a real job are assumed to seed torch identically before building samplers.",
        technique="deterministic simulation: simulated ranks, seeded interleaving of sampler operations with rank restarts and RNG perturbation, history oracle",
    ),
    "C14": dict(
        category="exploration",
        text="The C13 job one level up: each simulated rank owns a real SpectDataLoader / LangDataLoader / ContextWindowDataLoader over a generated data directory in the simulated file system (or a bare BucketBatchSampler with arbitrary maps), with data parameters inside or beside the loader parameters, optionally restricted to a subset of the ids and given normalisation statistics; epochs, abandoned epochs (k batches, then the iterator is dropped), rank restarts, epoch jumps and RNG perturbations are interleaved by the seed; len() is also asked mid-epoch, and a quarter of the scenarios consume epochs by taking exactly len(loader) batches. After every epoch: len() vs batches yielded, every batch in one bucket / in sampler order / of the bucket's size with short batches only at the tail, exactly-once delivery (or documented drops), the bucket map is a partition into length classes with documented sizes, lossless collation against an independent float64 reference pipeline (mvn, deltas, context windows, sos/eos), padding values, ids on rows; over the history: identical batches for identical (seed, epoch).",
        design="DESIGN.md section 4 (C14)",
        note="Trusted: SimFS/SimDist stubs; num_workers=0; rows are mapped to utterances by content when ids are suppressed; the per-rank sampler order is taken from the sampler's public API (its correctness is C13); reference transforms in props/corpus.py.",
        technique="deterministic simulation: simulated ranks and file system, seeded epoch/restart/jump histories, per-epoch invariants + reproducibility history oracle",
    ),
    "C12": dict(
        category="exploration",
        text="Seeded operation-and-corruption histories on one data directory in the simulated file system (CORRUPT with 26 stored-data fault kinds incl. changed frame counts and two defects in one token, REPAIR, REMOVE, STRAY files, VALIDATE, VALIDATE(fix=k), INFO none/strict/fix through the command, READ with sos/eos and write_hyp round trip), with directory listings permuted by the seed and, in half of the scenarios, one long-lived data set object over the whole history, judged after every step against an in-memory reference model: strict validation raises iff the documented conditions fail; fix=k succeeds iff only documented repairs are needed, writes exactly those repairs, is sticky and idempotent, and on failure leaves each file old or documented-repaired; the info report equals the recount; sos/eos surround every transcript including empty ones and write_hyp strips them.",
        design="DESIGN.md section 4 (C12)",
        note="Trusted: the reference model in props/c12.py (judge / recount, transcribed from the validate_spect_data_set and command docstrings); SimFS; no CUDA tensors; int8/int16 not injected; rcount of classes with empty known segments not judged (documentation ambiguous).",
        technique="deterministic simulation: stored-data fault injection and operation histories on a simulated directory against an executable reference model",
    ),
    "C18": dict(
        category="exploration",
        text="First clause only. Accumulation histories: tensors sharing a feature dimension are cut recursively along tape-chosen axes and delivered to one MeanVarianceNormalization accumulator in tape-chosen order (with store(delete_stats=False, bessel=b) as a repeatable operation of the history, each judged against the pooled statistics so far), or stored as files and fed through compute-mvn-stats-for-torch-feat-data-dir under a permuted directory listing with --id2gid groups; mean and (biased / Bessel) std must equal the float64 pooled statistics for every partition and order, normalising the pooled data must give zero mean and unit variance, and without stored statistics (or with only a mean or only a std given) the input's own are used. Deltas are judged only on the data-set transform path (inside C14).",
        design="DESIGN.md section 4 (C18)",
        note="NOT decided: feat_deltas for general (dim, time_dim, concatenate, pad_mode) and time_distributed_return: pure functions with no history, schedule or fault in them. Trusted: numpy float64 two-pass statistics; dtype-aware tolerances.",
        technique="deterministic simulation: tape-driven partition/order histories of one accumulator, and the directory command on a simulated FS with permuted listings, against pooled float64 statistics",
    ),
    "C17": dict(
        category="exploration",
        text="The console commands are called in-process on a real scratch directory; torch.multiprocessing pools are replaced by SimPool, a single-threaded executable model of multiprocessing.Pool whose feed / assign / work / deliver events are picked by the seeded choice tape (completion order, chunk assignment, consumer lag, feeder run-ahead), with pickle round trips for everything crossing the process boundary and seed-permuted directory listings. Each pipeline (trn, ctm, TextGrid round trips; ali<->token; error rates; subset; length moments, mvn stats, info; chunk command) first runs a warm-up round on the same paths with one utterance fewer (state remembered between invocations goes stale), then serially and under 2-3 pooled configurations: inverse-pair and printed-figure oracles are judged on the serial run (figures against a float64 / pure-Python DP recomputation), and every pooled run must reproduce the serial run's files, printed text and exit status. Every documented option of every command is passed by some scenarios (./check selftest-reach: 0 never passed).",
        design="DESIGN.md section 4 (C17), 3.4",
        note="Trusted: SimPool's model of multiprocessing.Pool (workers share the imported module; spawn start-up state, real pipes and OS-killed workers not modelled); SimDataLoader stub for DataLoader(num_workers>0) (torch's in-order contract assumed); oracles in props/pipelines.py. No I/O errors injected.",
        technique="deterministic simulation: tape-scheduled model of the worker pool, permuted listings, serial-vs-pooled differential + inverse-pair / recomputation oracles",
    ),
    "C10": dict(
        category="exploration",
        text="Last sentence only (chunking a data directory). chunk-torch-spect-data-dir runs inside the C17 simulation (SimPool schedules, permuted listings, real files). Independently of the slicer, each chunk's window is read back from its name: features and alignments must equal source[start:end] (pad rules for constant / replicate), tokens must be exactly the contained (or overlapping) known segments in order with boundaries re-expressed from the slice start, feat/ali/ref file sets coincide, valid-only windows lie inside the sequence, lobe-size-0 window sets (multisets and order under index-based names) equal the documented ones, one utterance chunked alone gives the same chunks as together with the others, the output passes strict validation, and pooled runs equal the serial run.",
        design="DESIGN.md section 4 (C10)",
        note="NOT decided: which windows a policy prescribes for lobe sizes > 0 / window types / the padded regime (pure function). Known finding C10-D15 (boundary sign; a unit test pins it) is reported as KNOWN-FINDING. Trusted: SimPool, the name-based oracle in props/pipelines.py::Chunk.",
        technique="deterministic simulation: the chunk command under tape-scheduled SimPool on a scratch directory, window-from-name oracle + serial-vs-pooled differential",
    ),
    "C11": dict(
        category="exploration",
        text="Decides the schedule, stream and (sampled) round-trip clauses: multi-process read_trn runs on SimPool (ordered imap) under tape-chosen completion orders, chunk sizes, queue depths and worker counts and must return the processes=0 list; every writer is driven through a path, an open file and a StringIO with option vectors that differ from the defaults and the bytes are compared, also into a file with a history (earlier content, written to twice, append mode); every reader through a path and an open file, after a warm-up round on the same paths and a read of the path's previous content (what the library remembers between calls is then stale); write-then-read is judged for trn (nested alternates), ctm (any wfn/channel mapping, mandated order), TextGrid (interval/point tiers, precision 0..6, gap filling) and token tensors (times within one frame shift).",
        design="DESIGN.md section 4 (C11)",
        note="The first sentence ('for every collection of transcripts') is an input-space statement that the workload only samples. Known finding C11-D3b (explicit point_tier not forwarded through a path; a unit test pins the resulting tier type). Trusted: SimPool; generator discipline (delimiter-free tokens, times on the print grid).",
        technique="deterministic simulation: tape-scheduled SimPool for multi-process parsing, path/file/buffer stream seam differential, write-read round trip",
    ),
}


def main():
    from simkit import runner

    checks, na = [], []
    for pid in [f"C{i:02d}" for i in range(1, 21)]:
        modname = runner.PROPS.get(pid)
        have = modname and os.path.exists(os.path.join(HERE, modname.replace(".", "/") + ".py")) and pid in META
        if have:
            m = META[pid]
            checks.append(
                {
                    "property_id": pid,
                    "quick_cmd": f"./check {pid} --tier quick",
                    "thorough_cmd": f"./check {pid} --tier thorough",
                    "evidence_file": f"evidence/{pid}.json",
                    "replay_cmd_template": "./check replay {path}",
                    "engine": "simkit",
                    "level_claimed": {"category": m["category"], "text": m["text"], "design_ref": m["design"]},
                    "level_note": m["note"],
                    "technique": m["technique"],
                }
            )
        else:
            na.append({"property_id": pid, "reason": NA.get(pid, PENDING)})
    man = {
        "version": 1,
        "setup_cmd": "./check selftest-determinism --tier quick",
        "hooks": {
            "guard": "PYDROBERT_PYTORCH_VERIF",
            "enable": "no source hooks: all seams (open/os/tempfile/torch.save, multiprocessing.Pool, torch.distributed queries, os.listdir) are patched from outside by simkit for the duration of a run; the guard variable is declared but unused",
            "baseline_off_cmd": "cd /repo && /venv/bin/python -m pytest -ra -q -p no:cacheprovider --timeout=900 --continue-on-collection-errors",
            "source_commits": [],
            "add_only": True,
        },
        "engines": [
            {
                "name": "simkit",
                "path": "simkit/",
                "serves_properties": [c["property_id"] for c in checks],
                "kind_free_text": "hand-written deterministic simulator: seeded scenario + choice tape, SimFS (crash semantics), SimPool (multiprocessing.Pool model), SimDist (ranks), replay files, ddmin; no third-party framework",
            }
        ],
        "checks": checks,
        "not_applicable": na,
        "notes": "All checks: ./check <id> --tier quick|thorough, honour VERIF_SEED; exit 0 held / 1 VIOLATION lines / 2 harness error. Known findings in known_findings.json. fix: commits in /repo are listed there as 'fixed:'.",
    }
    with open(os.path.join(HERE, "MANIFEST.json"), "w") as f:
        json.dump(man, f, indent=1)
        f.write("\n")
    print("claimed:", [c["property_id"] for c in checks])


main()
