"""C10 (last sentence): chunking a well-formed data directory yields a well-formed data
directory in which every chunk equals the source restricted to its window.

Runs the chunk command inside the C17 simulation (worker pool, permuted listings, real
files); the oracle reads each chunk's window back from its name, independently of the slicer.
"""
from . import c17 as _c17
from .c17 import execute, shrink_candidates, sample_repr, LEVEL, GROUP_KEYS, STATE_MEASURE, COMPONENTS  # noqa

ID = "C10"


def generate(rng, tier, index):
    return _c17.generate(rng, tier, index, only=["chunk"])


BUDGET = {"quick": 8000, "thorough": 40000}
WALL_CAP = {"quick": 300, "thorough": 3000}
RULE = (
    "run i derives a well-formed data directory (0..4 utterances, T in 1..9, alignments with any run structure, references with known, missing (-1) and "
    "empty segments), a policy / window type / lobe size 0..3 / pad mode / --partial-tokens / --retain-token-boundaries vector and 3-4 execution "
    "configurations (workers, chunk size, tape) from sha256(VERIF_SEED/C10/i). One evaluation = chunk-torch-spect-data-dir run under every configuration; "
    "the serial run's chunks are judged against source[start:end] with (start, end) read from the chunk's name, token containment/overlap and offsets, "
    "pad rules (constant, replicate), window sets for lobe size 0, strict validation of the output, and every pooled run must equal the serial one. "
    "Non-trivial = >= 2 utterances; distinct = scenario hash."
)
ASSUMPTIONS = [
    "NOT decided: which windows a policy prescribes for lobe sizes > 0, window types and the padded regime beyond 'valid-only windows lie inside the sequence' (a pure function of the input)",
    "reflect padding is judged on the in-range part only; its documented limit (pads shorter than the sequence) is accepted as NotImplementedError",
    "output validation is required only without --partial-tokens / --retain-token-boundaries (which by construction produce boundaries outside the chunk)",
    "policy 'ref' with lengths omitted is defined through the final segment's end; window sets are judged only when the final token has known boundaries covering all segments",
    "known finding C10-D15 (boundary sign) is reported as KNOWN-FINDING; chunks showing exactly that signature skip nothing else",
] + list(_c17.ASSUMPTIONS[:2])
