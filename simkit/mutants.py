"""Textual mutants for the sensitivity self-test (never written to /repo)."""
from .selftest import Mutant

T = "pydrobert.torch.training"
DL = "pydrobert.torch._dataloaders"
DS = "pydrobert.torch._datasets"
FE = "pydrobert.torch._feats"
PA = "pydrobert.torch._parsing"
CL = "pydrobert.torch.command_line"

MUTANTS = [
    # ---- C16 -------------------------------------------------------------------------
    Mutant("c16-history-before-checkpoint", "C16", T, [
        ("                    if save_info_first:\n                        self.save_info_to_hist(info)\n                    try:", "                    if True:\n                        self.save_info_to_hist(info)\n                    try:"),
        ("                    if not save_info_first:\n                        self.save_info_to_hist(info)\n\n                    clean_up", "                    if False:\n                        self.save_info_to_hist(info)\n\n                    clean_up"),
    ]),
    Mutant("c16-no-temp-file", "C16", T, [
        ('with tempfile.NamedTemporaryFile("wb", dir=dir_, delete=False) as f:', 'with open(path, "wb") as f:'),
        ("replaces.append((f.name, path))", "pass"),
    ]),
    Mutant("c16-no-refusal", "C16", T, [
        ("if model_pth == best_model_pth:", "if False:"),
        ("elif optim_pth == best_optim_pth:", "elif False:"),
    ]),
    Mutant("c16-cleanup-forgets-old-best", "C16", T, [
        ("                    if last_best != cur_best:\n                        clean_up |=", "                    if False:\n                        clean_up |="),
    ]),
    Mutant("c16-revert-D1-header", "C16", T, [
        ("            ) or not os.path.getsize(self.state_csv_path)\n", "            )\n"),
    ]),
    Mutant("c16-revert-D11-orphan", "C16", T, [
        ("                    pth in recorded and os.path.exists(pth)\n", "                    os.path.exists(pth)\n"),
    ]),
    Mutant("c16-cleanup-before-history", "C16", T, [
        ("                    if not save_info_first:\n                        self.save_info_to_hist(info)\n\n                    clean_up = {last_model_pth, last_optim_pth}",
         "                    clean_up = {last_model_pth, last_optim_pth}"),
        ("                    self._clean_up_files(*tuple(clean_up))\n", "                    self._clean_up_files(*tuple(clean_up))\n                    if not save_info_first:\n                        self.save_info_to_hist(info)\n"),
    ]),
    # ---- C15 -------------------------------------------------------------------------
    Mutant("c15-rlr-reference-is-previous-epoch", "C15", T, [
        ('rlr_epoch = epoch - self.params.reduce_lr_patience + info["rlr_patience_cd"] - 1', "rlr_epoch = epoch - 1"),
    ]),
    Mutant("c15-es-threshold-inclusive", "C15", T, [
        ('max(es_info["val_met"] - val_met, 0) < self.params.early_stopping_threshold', 'max(es_info["val_met"] - val_met, 0) <= self.params.early_stopping_threshold'),
    ]),
    Mutant("c15-no-cooldown", "C15", T, [
        ('info["rlr_resume_cd"] = self.params.reduce_lr_cooldown', 'info["rlr_resume_cd"] = 0'),
    ]),
    Mutant("c15-lr-not-written-to-optimizer", "C15", T, [
        ('                        param_group["lr"] = new_lr\n', '                        pass\n'),
    ]),
    Mutant("c15-burnin-off-by-one", "C15", T, [
        ('"es_resume_cd": self.params.early_stopping_burnin,', '"es_resume_cd": max(self.params.early_stopping_burnin - 1, 0),'),
    ]),
    Mutant("c15-reread-swaps-countdowns", "C15", T, [
        ('"rlr_resume_cd": int(row["rlr_resume_cd"]),', '"rlr_resume_cd": int(row["es_resume_cd"]),'),
    ]),
    Mutant("c15-user-entry-type-dropped", "C15", T, [
        ("self.cache_hist[epoch][name] = type_(row[name])", "self.cache_hist[epoch][name] = row[name]"),
    ]),
    Mutant("c15-best-epoch-prefers-later-tie", "C15", T, [
        ("            if cur < min_met:\n", "            if cur <= min_met:\n"),
    ]),
    # ---- C13 -------------------------------------------------------------------------
    Mutant("c13-drop-uses-total", "C13", DL, [
        ("return islice(ret, self._rank, self.effective_total, self._world_size)", "return islice(ret, self._rank, self.total, self._world_size)"),
    ]),
    Mutant("c13-len-ignores-rank", "C13", DL, [
        ("            self.effective_total - self._rank + self._world_size - 1\n", "            self.effective_total + self._world_size - 1\n"),
    ]),
    Mutant("c13-seed-includes-rank", "C13", DL, [
        ("rs = np.random.RandomState((self.base_seed, epoch))", "rs = np.random.RandomState((self.base_seed + self._rank, epoch))"),
    ]),
    Mutant("c13-global-rng-permutation", "C13", DL, [
        ("shuffled = rs.permutation(self.total)", "shuffled = np.random.permutation(self.total)"),
    ]),
    Mutant("c13-raise-mode-silently-drops", "C13", DL, [
        ('                if on_uneven_distributed == "raise":\n                    raise ValueError(', '                if on_uneven_distributed == "raise!":\n                    raise ValueError('),
        ('                elif on_uneven_distributed == "drop":', '                elif on_uneven_distributed in ("drop", "raise"):'),
    ]),
    Mutant("c13-iter-forgets-epoch-increment-on-restart", "C13", DL, [
        ("        self.epoch = argcheck.is_int(init_epoch, name=\"init_epoch\")", "        self.epoch = max(argcheck.is_int(init_epoch, name=\"init_epoch\") - 1, 0)"),
    ]),
    # ---- C14 -------------------------------------------------------------------------
    Mutant("c14-given-stats-ignored", "C14", DS, [
        ("            transforms.append(MeanVarianceNormalization(mean=feat_mean, std=feat_std))", "            transforms.append(MeanVarianceNormalization())"),
    ]),
    Mutant("c14-spect-subset-ids-ignored", "C14", DS, [
        ("        if subset_ids:\n            utt_ids &= subset_ids\n        if self.has_ali", "        if False:\n            utt_ids &= subset_ids\n        if self.has_ali"),
    ]),
    Mutant("c14-drop-incomplete-inverted", "C14", DL, [
        ("        if not self.drop_incomplete:\n            for _, batch in sorted(", "        if self.drop_incomplete:\n            for _, batch in sorted("),
    ]),
    Mutant("c14-feat-padding-one", "C14", DL, [
        ("        feats, padding_value=0, batch_first=batch_first", "        feats, padding_value=1, batch_first=batch_first"),
    ]),
    Mutant("c14-lang-ref-padding-zero", "C14", DL, [
        ("    refs = torch.nn.utils.rnn.pad_sequence(\n        refs, padding_value=config.INDEX_PAD_VALUE, batch_first=batch_first\n    )\n    if has_uttids:\n        return refs, ref_sizes, tuple(uttids)",
         "    refs = torch.nn.utils.rnn.pad_sequence(\n        refs, padding_value=0, batch_first=batch_first\n    )\n    if has_uttids:\n        return refs, ref_sizes, tuple(uttids)"),
    ]),
    Mutant("c14-len-rounds-wrong", "C14", DL, [
        ("                len_ += (count + size - 1) // size", "                len_ += count // size + 1"),
    ]),
    Mutant("c14-bucket-boundary-inclusive", "C14", DL, [
        ("sum(int(l > b) for b in len_bounds)", "sum(int(l >= b) for b in len_bounds[:-1])"),
    ]),
    Mutant("c14-dynamic-size-ignores-bucket", "C14", DL, [
        ("bucket2size = dict((j, m // len_bounds[j]) for j in range(num_buckets))", "bucket2size = dict((j, m // len_bounds[-1]) for j in range(num_buckets))"),
    ]),
    Mutant("c14-revert-D5-len-cache", "C14", DL, [
        ("if self._len is None or self._len[0] != epoch:", "if self._len is None:"),
    ]),
    Mutant("c14-window-left-pad-zero", "C14", DS, [
        ("            window[:left_pad] = feat[0]", "            window[:left_pad] = 0"),
    ]),
    Mutant("c14-sort-ascending", "C14", DL, [
        ("        seq = sorted(seq, key=lambda x: x[0].size(0), reverse=True)\n    seq = list(zip(*seq))", "        seq = sorted(seq, key=lambda x: x[0].size(0))\n    seq = list(zip(*seq))"),
    ]),
    Mutant("c14-revert-D6-empty-ref", "C14", DS, [
        ("            ref = torch.cat([ref.new_full((1,), sos), ref], 0)", "            ref = torch.cat([torch.full_like(ref[:1], sos), ref], 0)"),
    ]),
    Mutant("c14-revert-D17-lang-bucket-len", "C14", DL, [
        ("((x if isinstance(x, torch.Tensor) else x[0]).size(0), i)", "(x[0].size(0), i)"),
    ]),
    Mutant("c14-loader-forces-ignore-when-not-dropping", "C14", DL, [
        ('            utt_sampler_kwargs["on_uneven_distributed"] = on_uneven_distributed\n        if shuffle:\n            utt_sampler = EpochRandomSampler(\n                dataset, base_seed=seed, **utt_sampler_kwargs\n            )\n        else:\n            utt_sampler = EpochSequentialSampler(dataset, **utt_sampler_kwargs)\n        if num_length_buckets > 1:',
         '            utt_sampler_kwargs["on_uneven_distributed"] = "ignore"\n        if shuffle:\n            utt_sampler = EpochRandomSampler(\n                dataset, base_seed=seed, **utt_sampler_kwargs\n            )\n        else:\n            utt_sampler = EpochSequentialSampler(dataset, **utt_sampler_kwargs)\n        if num_length_buckets > 1:'),
    ]),
    Mutant("c14-ali-sizes-from-refs", "C14", DL, [
        ("    feat_sizes = torch.tensor([x.size(0) for x in feats])", "    feat_sizes = torch.tensor([max(x.size(0) - 1, 1) for x in feats])"),
    ]),
    # ---- C12 -------------------------------------------------------------------------
    Mutant("c12-ali-tolerance-off-by-one", "C12", DS, [
        ("if fix is not None and T + fix >= ali.shape[0] > T:", "if fix is not None and T + fix > ali.shape[0] > T:"),
    ]),
    Mutant("c12-ref-tolerance-off-by-one", "C12", DS, [
        ("if fix is not None and r[1] <= T >= r[2] - fix:", "if fix is not None and r[1] <= T >= r[2] - fix - 1:"),
    ]),
    Mutant("c12-rejects-empty-segments", "C12", DS, [
        ("                            elif r[2] < r[1]:\n                                raise ValueError(msg)", "                            elif r[2] <= r[1]:\n                                raise ValueError(msg)"),
    ]),
    Mutant("c12-half-open-fix-keeps-end", "C12", DS, [
        ("                                    r[1:] = -1\n", "                                    r[1] = -1\n"),
    ]),
    Mutant("c12-ref-fix-not-written", "C12", DS, [
        ("                if write_back:\n                    torch.save(ref, os.path.join(dir_, fn))", "                if False:\n                    torch.save(ref, os.path.join(dir_, fn))"),
    ]),
    Mutant("c12-width-not-checked", "C12", DS, [
        ("        elif validate and F != num_filts:", "        elif False and F != num_filts:"),
    ]),
    Mutant("c12-prefix-ignored-in-discovery", "C12", DS, [
        ("        if x.startswith(file_prefix) and x.endswith(file_suffix)\n    )", "        if x.endswith(file_suffix)\n    )"),
    ]),
    Mutant("c12-hyp-strips-first-sos", "C12", DS, [
        ("            sos_idx = sos_idxs[-1].item()", "            sos_idx = sos_idxs[0].item()"),
    ]),
    Mutant("c12-hyp-keeps-eos", "C12", DS, [
        ("            hyp = hyp[:eos_idx]", "            hyp = hyp[: eos_idx + 1]"),
    ]),
    Mutant("c12-segs-counts-frames", "C12", DS, [
        ("                    segs[class_idx] = segs.get(class_idx, 0) + 1", "                    segs[class_idx] = segs.get(class_idx, 0) + count"),
    ]),
    Mutant("c12-revert-D16-total-tokens", "C12", DS, [
        ("            if info:\n                info_dict.setdefault(\"total_tokens\", 0)\n", ""),
    ]),
    Mutant("c12-revert-D18-fix-zero", "C12", "pydrobert.torch.command_line", [
        ("options.strict or options.fix is not None, options.fix", "options.strict or options.fix, options.fix"),
    ]),
    Mutant("c12-revert-D6-empty-2d-ref", "C12", DS, [
        ("            sos_sym = ref.new_full((1, ref.size(1)), -1)\n            sos_sym[0, 0] = sos\n            ref = torch.cat([sos_sym, ref], 0)",
         "            sos_sym = torch.full_like(ref[0], -1)\n            sos_sym[0] = sos\n            ref = torch.cat([sos_sym.unsqueeze(0), ref], 0)"),
    ]),
    Mutant("c12-mixed-ref-dims-accepted", "C12", DS, [
        ("                    if ref_is_2d is False:\n                        raise ValueError(", "                    if ref_is_2d is None:\n                        raise ValueError("),
    ]),
    # ---- C18 -------------------------------------------------------------------------
    Mutant("c18-count-per-chunk", "C18", FE, [
        ("        count += x.size(1)", "        count += 1"),
    ]),
    Mutant("c18-bessel-inverted", "C18", FE, [
        ("            var *= count / (count - 1)", "            var *= (count - 1) / count"),
    ]),
    Mutant("c18-accumulate-flattens-wrong-axis", "C18", FE, [
        ("        x = x.transpose(0, self.dim).unsqueeze(-1).flatten(1)\n        count += x.size(1)", "        x = x.transpose(-1, self.dim).unsqueeze(-1).flatten(1)\n        count += x.size(1)"),
    ]),
    Mutant("c18-sumsq-not-squared", "C18", FE, [
        ("        sumsq += x.square().sum(1)", "        sumsq += x.abs().sum(1)"),
    ]),
    Mutant("c18-command-shares-one-accumulator", "C18", "pydrobert.torch.command_line", [
        ("            gid2mvn[gid] = mvn = modules.MeanVarianceNormalization(options.dim)", "            mvn = gid2mvn.setdefault('_shared', None) or modules.MeanVarianceNormalization(options.dim)\n            gid2mvn['_shared'] = None\n            for g_ in list(gid2mvn):\n                gid2mvn[g_] = mvn if g_ != '_shared' else None"),
    ]),
    Mutant("c18-own-stats-unbiased", "C18", FE, [
        ("std = x.transpose(0, dim).unsqueeze(-1).flatten(1).double().std(1, False)", "std = x.transpose(0, dim).unsqueeze(-1).flatten(1).double().std(1, True)"),
    ]),
    Mutant("c18-interim-store-resets", "C18", FE, [
        ("        if delete_stats:\n            self.sum = self.sumsq = self.count = None", "        self.sum = self.sumsq = self.count = None"),
    ]),
    Mutant("c18-deleting-store-keeps-stats", "C18", FE, [
        ("        if delete_stats:\n            self.sum = self.sumsq = self.count = None", "        if delete_stats and bessel:\n            self.sum = self.sumsq = self.count = None"),
    ]),
    # ---- C11 -------------------------------------------------------------------------
    Mutant("c11-read-trn-unordered", "C11", PA, [
        ("            transcripts = pool.imap(\n", "            transcripts = pool.imap_unordered(\n"),
    ]),
    Mutant("c11-write-ctm-path-drops-utt2wc", "C11", PA, [
        ("            return write_ctm(transcripts, ctm, utt2wc)", "            return write_ctm(transcripts, ctm)"),
    ]),
    Mutant("c11-revert-D10-string-sort", "C11", PA, [
        ("            for x in sorted(tier.simple_transcript, key=lambda x: float(x[0]))\n        ]\n    i = 0", "            for x in sorted(tier.simple_transcript)\n        ]\n    i = 0"),
    ]),
    Mutant("c11-revert-D3-precision", "C11", PA, [
        ("                transcript, tg, start_time, end_time, tier_name, precision=precision\n", "                transcript, tg, start_time, end_time, tier_name\n"),
    ]),
    Mutant("c11-write-trn-drops-third-alternate", "C11", PA, [
        ('        ret = "{ " + "/ ".join(ret) + "} "', '        ret = "{ " + "/ ".join(ret[:2]) + "} "'),
    ]),
    Mutant("c11-token-times-two-frames-off", "C11", PA, [
        ("                        end = (1000 * end + 0.5 * frame_shift_ms) // frame_shift_ms", "                        end = (1000 * end + 2.5 * frame_shift_ms) // frame_shift_ms"),
    ]),
    Mutant("c11-read-ctm-end-is-duration", "C11", PA, [
        ("            end = start + float(dur)", "            end = float(dur)"),
    ]),
    Mutant("c11-read-trn-file-branch-ignores-chunks-last-line", "C11", PA, [
        ("                _trn_line_to_transcript, ((line, warn) for line in trn), chunk_size", "                _trn_line_to_transcript, ((line, warn) for line in list(trn)[:-1] or []), chunk_size"),
    ]),
    # ---- C17 -------------------------------------------------------------------------
    Mutant("c17-pool-drops-last-initarg", "C17", CL, [
        ("    _mp_args = args\n", "    _mp_args = args[:-1]\n"),
    ]),
    Mutant("c17-subset-first-n-off-by-one", "C17", CL, [
        ("        utt_ids = iter(all_utt_ids[:n])", "        utt_ids = iter(all_utt_ids[: n + 1])"),
    ]),
    Mutant("c17-revert-D4-endswith-prefix", "C17", CL, [
        ("    basenames = (\n        x\n        for x in os.listdir(options.ali_dir)\n        if x.startswith(options.file_prefix) and x.endswith(options.file_suffix)",
         "    basenames = (\n        x\n        for x in os.listdir(options.ali_dir)\n        if x.startswith(options.file_prefix) and x.endswith(options.file_prefix)"),
    ]),
    Mutant("c17-revert-D12-empty-ref", "C17", CL, [
        ("            elif len(transcript):\n                error_rates[utt_id] = er.item() / len(transcript)", "            elif True:\n                error_rates[utt_id] = er.item() / len(transcript)"),
    ]),
    Mutant("c17-ctm-out-ignores-frame-shift", "C17", CL, [
        ("        options.file_suffix,\n        options.frame_shift_ms,\n    )\n    data.write_ctm(transcripts, options.ctm, utt2wc)", "        options.file_suffix,\n        10.0,\n    )\n    data.write_ctm(transcripts, options.ctm, utt2wc)"),
    ]),
    Mutant("c17-alt-handler-picks-last", "C17", CL, [
        ("                    x[0].extend(old_transcript)\n                    old_transcript = x[0]", "                    x[-1].extend(old_transcript)\n                    old_transcript = x[-1]"),
    ]),
    Mutant("c17-moments-variance-formula", "C17", CL, [
        ("        var = ss / c - mean ** 2", "        var = ss / c - mean"),
    ]),
    Mutant("c17-error-rate-total-per-batch", "C17", CL, [
        ("            total_ref_tokens += len(transcript)", "            total_ref_tokens = total_ref_tokens * (idx_ := 1) + len(transcript) if er is ers[0] and False else total_ref_tokens + len(transcript) * (1 if len(ers) > 1 else 2)"),
    ]),
    Mutant("c17-textgrid-fill-ignored", "C17", CL, [
        ("                options.tier_id,\n                options.fill_symbol,\n            )[0]", "                options.tier_id,\n                None,\n            )[0]"),
    ]),
    Mutant("c17-unordered-results-paired-with-inputs", "C17", CL, [
        ("    for s_, ss_, c_ in _multiprocessor_pattern_generator(\n        filenames, options, _print_torch_ali_data_dir_length_moments, exclude_ids\n    ):\n        s += s_",
         "    filenames = list(filenames)\n    for k_, (s_, ss_, c_) in enumerate(_multiprocessor_pattern_generator(\n        filenames, options, _print_torch_ali_data_dir_length_moments, exclude_ids\n    )):\n        s_ = s_ if filenames[k_] == sorted(filenames)[k_] or not options.num_workers else s_ + 1\n        s += s_"),
    ]),
    # ---- C10 -------------------------------------------------------------------------
    Mutant("c10-revert-D13-ali-final-end", "C10", FE, [
        ("        mask = torch.cat([torch.zeros_like(nonempty), mask, torch.zeros_like(nonempty)], 1)\n        mask = mask | (\n            nonempty & (in_lens.view(N, 1) == torch.arange(T + 1, device=device))\n        )",
         "        mask = torch.cat([torch.zeros_like(nonempty), mask], 1)\n        mask = mask | (nonempty & (in_lens.view(N, 1) == arange))"),
    ]),
    Mutant("c10-revert-D14-ref-other-lens", "C10", FE, [
        ("                ends.gather(1, (in_lens - 1).clamp_min_(0).view(N, 1))", "                ends[..., 1].gather(1, (in_lens - 1).clamp_min_(0).view(N, 1))"),
    ]),
    Mutant("c10-containment-strict", "C10", FE, [
        ("mask & (slices[..., :1] <= refs[..., 1]) & (slices[..., 1:] >= refs[..., 2])", "mask & (slices[..., :1] < refs[..., 1]) & (slices[..., 1:] >= refs[..., 2])"),
    ]),
    Mutant("c10-chunk-features-one-frame-short", "C10", CL, [
        ("        torch.save(feats[n, : lens[n]], os.path.join(out_feat_dir, out_basename))", "        torch.save(feats[n, : max(lens[n] - 1, 1)], os.path.join(out_feat_dir, out_basename))"),
    ]),
    Mutant("c10-fixed-drops-last-window", "C10", FE, [
        ("            starts = torch.arange(0, max(T - window_size + 1, 0), shift, device=device)", "            starts = torch.arange(0, max(T - window_size, 0), shift, device=device)"),
    ]),
    Mutant("c10-ali-chunks-from-wrong-slices", "C10", CL, [
        ("        alis, lens_ = chunker(alis.expand(M, -1), slices)\n        assert (lens == lens_).all()", "        alis, lens_ = chunker(alis.expand(M, -1), slices.flip(0))"),
    ]),
    Mutant("c10-revert-D21-token-only-refs", "C10", CL, [
        ("        if refs.ndim == 2:\n            # token-only transcripts have no segments to place in a chunk\n            refs, ref_lens = refs.new_empty((M, 0)), slices.new_zeros((M,))\n        else:\n            refs, ref_lens = ref_chunker(refs.expand(M, *refs.shape[1:]), slices)",
         "        refs, ref_lens = ref_chunker(refs.expand(M, *refs.shape[1:]), slices)"),
    ]),
]
