"""SimDist: ranks as nodes (DESIGN.md 3.5).

``torch.distributed.is_available/is_initialized/get_rank/get_world_size`` answer from the
simulator's current node.  No process group exists; collectives are not simulated.
"""
import contextlib

import torch
import torch.distributed as dist


class SimDist:
    def __init__(self):
        self.rank = None  # None = not initialised (undistributed observer)
        self.world = None
        self.queries = 0

    @contextlib.contextmanager
    def node(self, rank, world):
        prev = (self.rank, self.world)
        self.rank, self.world = rank, world
        try:
            yield
        finally:
            self.rank, self.world = prev

    @contextlib.contextmanager
    def patched(self):
        saved = {k: getattr(dist, k) for k in ("is_available", "is_initialized", "get_rank", "get_world_size")}

        def is_available():
            return True

        def is_initialized():
            self.queries += 1
            return self.rank is not None

        def get_rank(group=None):
            return -1 if self.rank is None else self.rank

        def get_world_size(group=None):
            return -1 if self.world is None else self.world

        dist.is_available, dist.is_initialized, dist.get_rank, dist.get_world_size = is_available, is_initialized, get_rank, get_world_size
        try:
            yield self
        finally:
            for k, v in saved.items():
                setattr(dist, k, v)


def perturb_global_rngs(x):
    """Reseed or advance the process-global generators (the hazard that 'a function of
    (seed, epoch) alone' rules out)."""
    import random

    import numpy as np

    if x % 3 == 0:
        torch.manual_seed(x)
        np.random.seed(x % (1 << 31))
        random.seed(x)
    elif x % 3 == 1:
        torch.rand(x % 7 + 1)
        np.random.rand(x % 5 + 1)
        random.random()
    else:
        torch.manual_seed(x * 7919 + 1)
