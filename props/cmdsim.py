"""Shared harness for running the console commands in-process under SimPool (C17, C10, C11)."""
import contextlib
import io
import os
import random
import shutil
import sys
import warnings

import torch

import pydrobert.torch.command_line  # noqa: imported before any seam is patched
from simkit.core import HarnessError, Tape
from simkit.simpool import PoolSim

_COUNTER = [0]


def scratch_root():
    base = "/dev/shm" if os.path.isdir("/dev/shm") and os.access("/dev/shm", os.W_OK) else "/tmp"
    return base


class Scratch:
    """A real scratch directory (tmpfs), removed on exit; paths never enter event logs."""

    def __init__(self, tag=None):
        # tag given: the same path for every round of one scenario (commands are called several
        # times in one process on the same paths with different contents, so state cached
        # across calls shows), yet never shared between scenarios (replays stay self-contained)
        _COUNTER[0] += 1
        self.path = os.path.join(scratch_root(), f"verif-sim-{os.getpid()}-{tag if tag else _COUNTER[0]}")

    def __enter__(self):
        shutil.rmtree(self.path, ignore_errors=True)
        os.makedirs(self.path)
        return self

    def __exit__(self, *exc):
        shutil.rmtree(self.path, ignore_errors=True)

    def p(self, *parts):
        return os.path.join(self.path, *parts)


@contextlib.contextmanager
def permuted_listings(root, seed, counter):
    """os.listdir under ``root`` returns a seed-chosen permutation (POSIX leaves the order open)."""
    real = os.listdir
    rng = random.Random(seed)

    def listdir(path="."):
        out = real(path)
        try:
            p = os.fspath(path)
        except TypeError:
            return out
        if isinstance(p, str) and os.path.abspath(p).startswith(root):
            out = sorted(out)
            rng.shuffle(out)
            if out != sorted(out):
                counter["listing_not_sorted"] = counter.get("listing_not_sorted", 0) + 1
        return out

    os.listdir = listdir
    try:
        yield
    finally:
        os.listdir = real


class CommandOutcome:
    def __init__(self, rc=None, exc=None, out=""):
        self.rc, self.exc, self.out = rc, exc, out

    def status(self):
        if self.exc is not None:
            return ("raised", type(self.exc).__name__)
        return ("rc", self.rc or 0)


def run_command(name, argv):
    """Calls pydrobert.torch.command_line.<name>(argv) in-process."""
    from pydrobert.torch import command_line

    fn = getattr(command_line, name)
    old_out, old_err = sys.stdout, sys.stderr
    sys.stdout, sys.stderr = io.StringIO(), io.StringIO()
    try:
        with warnings.catch_warnings():
            warnings.simplefilter("ignore")
            try:
                rc = fn([str(a) for a in argv])
                return CommandOutcome(rc=rc, out=sys.stdout.getvalue())
            except HarnessError:
                raise
            except Exception as e:  # noqa
                return CommandOutcome(exc=e, out=sys.stdout.getvalue())
    finally:
        # argparse.FileType handles opened by a command that then failed are left to the GC
        sys.stdout, sys.stderr = old_out, old_err


def snapshot(path):
    """relpath -> comparable description of every file below path."""
    out = {}
    if not os.path.exists(path):
        return out
    for dirpath, dirnames, filenames in os.walk(path):
        dirnames.sort()
        for fn in sorted(filenames):
            full = os.path.join(dirpath, fn)
            rel = os.path.relpath(full, path)
            if os.path.islink(full):
                out[rel] = ("link", os.readlink(full))
                continue
            with open(full, "rb") as f:
                head = f.read(4)
            if head[:2] == b"PK":
                try:
                    obj = torch.load(full, weights_only=False)
                except Exception:
                    with open(full, "rb") as f:
                        out[rel] = ("bytes", f.read())
                    continue
                out[rel] = ("obj", describe(obj))
            else:
                with open(full, "rb") as f:
                    out[rel] = ("bytes", f.read())
    return out


def describe(obj):
    if torch.is_tensor(obj):
        return ("tensor", str(obj.dtype), tuple(obj.shape), obj.tolist())
    if isinstance(obj, dict):
        return ("dict", tuple(sorted((str(k), describe(v)) for k, v in obj.items())))
    if isinstance(obj, (list, tuple)):
        return ("seq", tuple(describe(o) for o in obj))
    return ("py", repr(obj))


def diff_snapshots(a, b):
    """Returns a short description of the first difference or None."""
    if set(a) != set(b):
        return f"file sets differ: only in one run: {sorted(set(a) ^ set(b))[:4]}"
    for k in sorted(a):
        if a[k] != b[k]:
            return f"file {k} differs"
    return None


class SimConfig:
    """One (workers, chunk size, tape, queue depth) execution configuration."""

    def __init__(self, workers, chunk, tape, depth=4):
        self.workers, self.chunk, self.tape, self.depth = workers, chunk, list(tape), depth

    def args(self, with_chunk=True):
        a = ["--num-workers", str(self.workers)]
        if with_chunk:
            a += ["--mp-chunk-size", str(self.chunk)]
        return a
