"""Shared simulation of a training job around TrainingStateController (C15, C16).

The "process" is the training loop of the class docstring.  It runs real
``pydrobert.torch.training`` code, real ``torch.save/load`` and real ``csv`` on a SimFS.
"""
import io
import posixpath
import math
import warnings

import torch

from simkit.core import SimCrash, HarnessError, RunResult
from simkit.simfs import SimFS, patched, ROOT

GRID = [k / 8 for k in range(0, 33)]  # exact in binary and in "{:.4e}"
THRESHOLDS = [0.0, 0.125, 0.1875, 0.25, 0.5]
FACTORS = [0.5, 0.25, 0.1, 0.3]
BUILTIN = ["epoch", "es_resume_cd", "es_patience_cd", "rlr_resume_cd", "rlr_patience_cd", "lr", "train_met", "val_met"]

MODEL_FMTS = {
    "epoch": ("model_{epoch:03d}.pt", "optim_{epoch:03d}.pt"),
    "noepoch": ("model.pt", "optim.pt"),
    "subdir": ("ep{epoch}/m.pt", "ep{epoch}/o.pt"),
    "plain": ("m{epoch}.pt", "o{epoch}.pt"),
    # no epoch field, yet distinct whenever the metrics are: other history fields are allowed in formats
    "metric": ("model_{val_met}.pt", "optim_{val_met}_{train_met}.pt"),
}

ENTRY_TYPES = {"int": int, "float": float, "str": str}


# ---------------------------------------------------------------------------------------
# scenario generation
# ---------------------------------------------------------------------------------------
def gen_params(rng, max_epochs):
    p = {}
    p["num_epochs"] = rng.choice([None, None, max_epochs, max(1, max_epochs - rng.randrange(0, 3)), max_epochs + 2])
    p["log10_learning_rate"] = rng.choice([None, None, 0, -2])
    p["early_stopping_threshold"] = rng.choice(THRESHOLDS)
    # two-digit values exercise the zero-padded countdown columns of the history file
    p["early_stopping_patience"] = rng.choice([1, 1, 2, 3, 4, 10])
    p["early_stopping_burnin"] = rng.choice([0, 0, 1, 2, 3, 10])
    p["reduce_lr_threshold"] = rng.choice(THRESHOLDS)
    p["reduce_lr_factor"] = rng.choice(FACTORS)
    p["reduce_lr_patience"] = rng.choice([1, 1, 2, 3, 11])
    p["reduce_lr_cooldown"] = rng.choice([0, 0, 1, 2, 3, 10])
    p["reduce_lr_burnin"] = rng.choice([0, 0, 1, 2, 12])
    p["reduce_lr_log10_epsilon"] = rng.choice([-8, -8, -1, -2])
    return p


def gen_metrics(rng, n):
    """Metric sequences with structure: plateaus, slow descents, ties, rebounds."""
    style = rng.randrange(5)
    out = []
    v = rng.choice(GRID[8:])
    for _ in range(n):
        if style == 0:
            v = rng.choice(GRID)
        elif style == 1:  # mostly descending by small grid steps, sometimes stalls
            v = max(0.0, v - rng.choice([0, 0, 0.125, 0.125, 0.25, 0.5])) if rng.random() < 0.8 else min(4.0, v + rng.choice([0.125, 0.5]))
        elif style == 2:  # plateau with rare drops
            if rng.random() < 0.25:
                v = max(0.0, v - rng.choice([0.125, 0.25, 0.375, 1.0]))
        elif style == 3:  # random walk
            v = min(4.0, max(0.0, v + rng.choice([-0.5, -0.25, -0.125, 0, 0.125, 0.25])))
        else:  # few distinct values -> many ties
            v = rng.choice([0.5, 0.625, 0.75])
        out.append([rng.choice(GRID), v])
    if rng.random() < 0.3:  # train metric correlates
        out = [[min(4.0, b + 0.125), b] for a, b in out]
    return out


def gen_training_scenario(rng, *, max_epochs=12, crash=False):
    n = rng.choice([1, 2, 3, 4, 4, 5, 6, 6, 8, 10, max_epochs])
    n = min(n, max_epochs)
    if not crash and rng.random() < 0.04:
        n = 40  # a long run: drift and state that accumulates over epochs (C15 only: cheap without crash plans)
    sc = {}
    sc["params"] = gen_params(rng, n)
    sc["metrics"] = gen_metrics(rng, n)
    sc["best_is_train"] = rng.random() < 0.2
    sc["optimizer"] = rng.choice(["sgd", "adam"])
    sc["salt"] = rng.randrange(1, 1000)
    fam = rng.choice(["epoch", "epoch", "epoch", "noepoch", "subdir", "plain", "mixed", "metric"])
    if fam == "mixed":
        a, b = rng.sample(["epoch", "noepoch", "subdir", "plain", "metric"], 2)
        mf, of = MODEL_FMTS[a][0], MODEL_FMTS[b][1]
    else:
        mf, of = MODEL_FMTS[fam]
    sc["params"]["saved_model_fmt"] = mf
    sc["params"]["saved_optimizer_fmt"] = of
    sc["params"]["keep_last_and_best_only"] = rng.random() < 0.6
    # directory naming varies so that set-iteration order of path strings varies
    tag = "".join(rng.choice("abcdefghijklmnopqrstuvwxyz0123456789") for _ in range(rng.randrange(1, 6)))
    base = f"{ROOT}/job_{tag}"
    layout = rng.randrange(4)
    if layout == 0:
        sc["state_dir"], sc["csv"] = f"{base}/states", f"{base}/hist.csv"
    elif layout == 1:
        sc["state_dir"], sc["csv"] = f"{base}/states", f"{base}/states/hist.csv"
    elif layout == 2:
        sc["state_dir"], sc["csv"] = f"{base}", f"{base}/log/h.csv"
    else:
        sc["state_dir"], sc["csv"] = f"{base}/a/b", f"{base}/hist.csv"
    # user entries
    ents = []
    if rng.random() < 0.5:
        for i in range(rng.randrange(1, 3)):
            t = rng.choice(["int", "float", "str"])
            fmt = {"int": rng.choice(["{}", "{:04d}"]), "float": rng.choice(["{}", "{:.3e}"]), "str": "{}"}[t]
            vals = []
            for e in range(n):
                if t == "int":
                    vals.append(rng.randrange(-5, 1000))
                elif t == "float":
                    vals.append(rng.choice(GRID))
                else:
                    vals.append(rng.choice(["a", "bc", "x_y", "tok-1", "Z", "", "", "a b", "0", "None"]))
            ents.append({"name": f"ent{i}", "type": t, "fmt": fmt, "values": vals})
    sc["entries"] = ents
    sc["bufsize"] = rng.choice([1, 512, 4096, 1 << 16, 1 << 16, 1 << 16])
    if sc["bufsize"] == 1 and n > 4:
        # every torch.save write() is its own crash point (~90 per update): keep those jobs short
        n = 4
        sc["metrics"] = sc["metrics"][:n]
        for ent in sc["entries"]:
            ent["values"] = ent["values"][:n]
    sc["faults"] = []
    sc["restarts"] = []
    return sc


# ---------------------------------------------------------------------------------------
# reference model of the control decisions (written from the property statement)
# ---------------------------------------------------------------------------------------
class Criterion:
    def __init__(self, burnin, patience, threshold):
        self.resume = burnin
        self.patience = patience
        self.threshold = threshold
        self.count = patience
        self.ref = float("inf")  # value the metric had when the count was last reset

    def step(self, v):
        """Returns True iff the criterion fires at this epoch."""
        if self.resume > 0:
            self.resume -= 1
            self.ref = v  # count held at reset
            return False
        undercut = self.ref - v
        if self.threshold > 0 and undercut < self.threshold:
            # failed to undercut by the threshold
            self.count -= 1
            return self.count <= 0
        self.count = self.patience
        self.ref = v
        return False


class ControlModel:
    def __init__(self, params, default_lr):
        p = params
        self.p = p
        self.es = Criterion(p["early_stopping_burnin"], p["early_stopping_patience"], p["early_stopping_threshold"])
        self.rlr = Criterion(p["reduce_lr_burnin"], p["reduce_lr_patience"], p["reduce_lr_threshold"])
        self.lr = 10 ** p["log10_learning_rate"] if p["log10_learning_rate"] is not None else default_lr
        self.epoch = 0
        self.borderline = False

    def step(self, val):
        """Returns (continue?, lr, reduced?)."""
        self.epoch += 1
        p = self.p
        cont = True if not p["num_epochs"] else self.epoch < p["num_epochs"]
        es_fired = self.es.step(val)
        if es_fired:
            self.es.count = 0
        if p["early_stopping_threshold"] and es_fired:
            cont = False
        reduced = False
        if self.rlr.step(val):
            new = self.lr * p["reduce_lr_factor"]
            eps = 10 ** p["reduce_lr_log10_epsilon"]
            if abs((self.lr - new) - eps) <= 2e-3 * eps:
                self.borderline = True
            if self.lr - new > eps:
                self.lr = new
                reduced = True
            self.rlr.resume = p["reduce_lr_cooldown"]
            self.rlr.count = p["reduce_lr_patience"]
            self.rlr.ref = val
        return cont, self.lr, reduced

    def countdowns(self):
        return {
            "es_resume_cd": self.es.resume,
            "es_patience_cd": self.es.count,
            "rlr_resume_cd": self.rlr.resume,
            "rlr_patience_cd": self.rlr.count,
        }


# ---------------------------------------------------------------------------------------
# stamps: every saved tensor is attributable to exactly one (scenario, epoch)
# ---------------------------------------------------------------------------------------
def stamp_value(salt, epoch, slot):
    return float(salt * 64 + epoch) + slot / 16.0


def make_model_and_optimizer(sc):
    model = torch.nn.Linear(2, 1)
    with torch.no_grad():
        model.weight.fill_(-1.0)
        model.bias.fill_(-1.0)
    if sc["optimizer"] == "sgd":
        opt = torch.optim.SGD(model.parameters(), lr=0.5, momentum=0.5)
    else:
        opt = torch.optim.Adam(model.parameters(), lr=0.5)
    return model, opt


def ensure_optimizer_state(model, opt):
    if len(opt.state) == 0:
        model.zero_grad()
        model(torch.ones(1, 2)).sum().backward()
        lrs = [g["lr"] for g in opt.param_groups]
        opt.step()
        for g, lr in zip(opt.param_groups, lrs):
            g["lr"] = lr


def stamp(sc, model, opt, epoch):
    ensure_optimizer_state(model, opt)
    with torch.no_grad():
        model.weight.fill_(stamp_value(sc["salt"], epoch, 0))
        model.bias.fill_(stamp_value(sc["salt"], epoch, 1))
        slot = 2
        for p in opt.param_groups[0]["params"]:
            st = opt.state[p]
            for k in sorted(st):
                if torch.is_tensor(st[k]):
                    st[k].fill_(stamp_value(sc["salt"], epoch, slot))
                    slot += 1


def read_stamp(sc, model, opt):
    """Returns the set of epochs the tensors claim to be from, model and optimizer separately."""

    def decode(x, slot):
        return x - slot / 16.0 - sc["salt"] * 64

    m = {decode(float(model.weight.flatten()[0]), 0), decode(float(model.weight.flatten()[1]), 0), decode(float(model.bias[0]), 1)}
    o = set()
    slot = 2
    for p in opt.param_groups[0]["params"]:
        st = opt.state.get(p, {})
        for k in sorted(st):
            if torch.is_tensor(st[k]):
                for x in st[k].flatten().tolist():
                    o.add(decode(float(x), slot))
                slot += 1
    return m, o


# ---------------------------------------------------------------------------------------
# the job
# ---------------------------------------------------------------------------------------
def make_params(sc):
    from pydrobert.torch.training import TrainingStateParams

    return TrainingStateParams(**sc["params"])


def paths_for(sc, epoch):
    """Checkpoint paths of an epoch; formats may use the epoch and the two metrics."""
    p = sc["params"]
    tm, vm = sc["metrics"][epoch - 1] if 1 <= epoch <= len(sc["metrics"]) else (float("inf"), float("inf"))
    info = {"epoch": epoch, "train_met": tm, "val_met": vm}
    return (
        posixpath.normpath(posixpath.join(sc["state_dir"], p["saved_model_fmt"].format(**info))),
        posixpath.normpath(posixpath.join(sc["state_dir"], p["saved_optimizer_fmt"].format(**info))),
    )


def collides(sc, epoch, earlier):
    """Does a checkpoint path of ``epoch`` equal one of an epoch in ``earlier``?"""
    mine = set(paths_for(sc, epoch))
    return any(mine & set(paths_for(sc, e)) for e in earlier if e != epoch)


class Refused(Exception):
    pass


class Job:
    """One training job = a sequence of processes on one SimFS."""

    def __init__(self, sc, res: RunResult, fs=None):
        self.sc = sc
        self.res = res
        self.fs = fs if fs is not None else SimFS(sc.get("bufsize", 1 << 16))
        # the directory of the history file is the user's to create (the controller only
        # creates directories for checkpoints)
        import posixpath

        d = posixpath.dirname(posixpath.normpath(sc["csv"])) if sc["csv"] else ""
        while d.startswith(ROOT) and d not in self.fs.dirs:
            self.fs.dirs.add(d)
            d = posixpath.dirname(d)
        self.n = len(sc["metrics"])
        self.ctrl = None
        self.model = None
        self.opt = None
        self.decisions = {}  # epoch -> (cont, lr)
        self.refused_at = None
        self.update_ops = []  # oplog slice of the update in progress (for signatures)
        self.in_update = None
        self.completed_updates = 0

    # -- construction as the class docstring prescribes
    def construct(self, load=True, keep_objects=False):
        from pydrobert.torch.training import TrainingStateController

        sc = self.sc
        if not keep_objects or self.model is None:
            self.model, self.opt = make_model_and_optimizer(sc)
        self.ctrl = TrainingStateController(make_params(sc), sc["csv"], sc["state_dir"], warn=False)
        for ent in sc["entries"]:
            self.ctrl.add_entry(ent["name"], ENTRY_TYPES[ent["type"]], ent["fmt"])
        if load:
            self.ctrl.load_model_and_optimizer_for_epoch(self.model, self.opt)
        return self.ctrl

    def entries_for(self, epoch):
        return {ent["name"]: ent["values"][epoch - 1] for ent in self.sc["entries"]}

    def one_epoch(self):
        """Runs the next epoch's update.  Returns cont (bool)."""
        ctrl = self.ctrl
        e = ctrl.get_last_epoch() + 1
        tm, vm = self.sc["metrics"][e - 1]
        stamp(self.sc, self.model, self.opt, e)
        self.in_update = e
        try:
            cont = ctrl.update_for_epoch(self.model, self.opt, tm, vm, best_is_train=self.sc["best_is_train"], **self.entries_for(e))
        except ValueError as err:
            # the documented refusal to overwrite the best checkpoint: legitimate exactly when only the last and
            # best are kept and the new epoch's paths equal an earlier epoch's (whatever the message says)
            if self.sc["params"]["keep_last_and_best_only"] and collides(self.sc, e, range(0, e)):
                self.refused_at = e
                raise Refused(str(err))
            raise
        self.in_update = None
        self.completed_updates += 1
        lr = [g["lr"] for g in self.opt.param_groups]
        self.decisions[e] = (bool(cont), lr[0])
        return cont

    def more(self):
        return self.ctrl.get_last_epoch() < self.n and self.ctrl.continue_training()


def csv_rows(fs, sc):
    """Parsed rows of the history file: list of dict name->string (no cast)."""
    import csv

    if not fs.exists(sc["csv"]):
        return None
    text = bytes(fs.files[sc["csv"]]).decode()
    return list(csv.DictReader(io.StringIO(text, newline=None))), text


def rows_equal(a, b, lr_tol=1e-3):
    """Row equality with the lr column to print precision (DESIGN.md section 7)."""
    if set(a) != set(b):
        return False
    for k in a:
        if k == "lr":
            try:
                x, y = float(a[k]), float(b[k])
            except (TypeError, ValueError):
                return False
            if abs(x - y) > lr_tol * max(abs(x), abs(y)):
                return False
        elif a[k] != b[k]:
            return False
    return True


def quiet():
    w = warnings.catch_warnings()
    w.__enter__()
    warnings.simplefilter("ignore")
    return w
