"""Seeds, choice tapes, event logs, violations.

One integer decides everything: ``derive_rng(seed, prop, i)`` is the only PRNG a run
ever sees, and it is used only to *generate* a scenario (a JSON-serialisable dict that
includes the choice tape).  Execution is a pure function of the scenario.
"""
import hashlib
import json
import random


class HarnessError(Exception):
    """A bug or limitation of the harness, never a property violation (exit 2)."""


class SimCrash(BaseException):
    """Simulated process death.  BaseException so `except Exception` cannot eat it."""


def derive_rng(seed, prop, index):
    h = hashlib.sha256(f"{seed}/{prop}/{index}".encode()).digest()
    return random.Random(int.from_bytes(h[:8], "big"))


class Tape:
    """Sequence of non-negative integers consumed by the scheduler.

    ``choose(n)`` returns ``tape[cursor] % n`` and past the end of the tape, 0; so a
    shorter tape (or one with entries reduced toward 0) is always a valid, simpler
    schedule: which is what minimisation relies on.
    """

    def __init__(self, values=()):
        self.values = list(values)
        self.cursor = 0
        self.consumed = []

    def choose(self, n):
        if n <= 0:
            raise HarnessError("choose(0)")
        if n == 1:
            # forced moves do not consume tape: keeps tapes short and stable
            return 0
        v = self.values[self.cursor] if self.cursor < len(self.values) else 0
        self.cursor += 1
        c = v % n
        self.consumed.append(c)
        return c

    def flip(self, num, den):
        """True with 'probability' num/den (exactly reproducible)."""
        return self.choose(den) < num


def make_tape(rng, n, hi=1 << 16):
    return [rng.randrange(hi) for _ in range(n)]


class EventLog:
    def __init__(self, keep=True):
        self.lines = [] if keep else None
        self._h = hashlib.sha256()
        self.n = 0

    def add(self, *parts):
        s = " ".join(str(p) for p in parts)
        self._h.update(s.encode())
        self._h.update(b"\n")
        self.n += 1
        if self.lines is not None:
            self.lines.append(s)

    def digest(self):
        return self._h.hexdigest()[:16]


class Violation:
    def __init__(self, oracle, message, sig=None):
        self.oracle = oracle
        self.message = message
        self.sig = dict(sig or {})
        self.sig.setdefault("oracle", oracle)

    def to_json(self):
        return {"oracle": self.oracle, "message": self.message, "sig": self.sig}

    def __repr__(self):
        return f"Violation({self.oracle}: {self.message})"


class RunResult:
    """What executing one concrete scenario produced."""

    def __init__(self):
        self.violations = []
        self.log = EventLog()
        self.stats = {}  # counters: faults fired, probes hit, ...
        self.states = set()  # hashes for the 'distinct states' measure
        self.steps = 0
        self.nontrivial = False

    def bump(self, key, n=1):
        self.stats[key] = self.stats.get(key, 0) + n

    def violate(self, oracle, message, **sig):
        v = Violation(oracle, message, sig)
        self.violations.append(v)
        self.log.add("VIOLATION", oracle, message)
        return v


def canon(obj):
    return json.dumps(obj, sort_keys=True, separators=(",", ":"))


def short_hash(obj):
    return hashlib.sha256(canon(obj).encode()).hexdigest()[:12]
