"""Batch runner, evidence, replay, minimisation, known findings (DESIGN.md 3.6, 3.8, 8)."""
import concurrent.futures as cf
import faulthandler
import hashlib
import importlib
import json
import multiprocessing
import os
import subprocess
import sys
import time
import traceback

from . import ENGINE_VERSION
from .core import derive_rng, HarnessError, canon, short_hash

VERIF = os.path.dirname(os.path.dirname(os.path.abspath(__file__)))
OUT = os.path.join(VERIF, "out")
REPLAYS = os.path.join(OUT, "replays")
# evidence/ is only ever written by runs against /repo itself; runs against another tree (seeded
# changes in a scratch worktree) leave their record under out/
EVIDENCE = os.path.join(VERIF, "evidence") if os.environ.get("VERIF_REPO", "/repo") == "/repo" else os.path.join(OUT, "evidence-other-tree")
KNOWN = os.path.join(VERIF, "known_findings.json")

PROPS = {
    "C10": "props.c10",
    "C11": "props.c11",
    "C12": "props.c12",
    "C13": "props.c13",
    "C14": "props.c14",
    "C15": "props.c15",
    "C16": "props.c16",
    "C17": "props.c17",
    "C18": "props.c18",
}


def load_prop(pid):
    return importlib.import_module(PROPS[pid])


def concrete_cases(prop, base, tier):
    if hasattr(prop, "concrete_cases"):
        return prop.concrete_cases(base, tier)
    return [base]


# ---------------------------------------------------------------------------------------
# one chunk of run indices, executed in a forked worker
# ---------------------------------------------------------------------------------------
def run_chunk(pid, tier, seed, start, stop, max_fail=20, per_run_cap=120):
    prop = load_prop(pid)
    agg = {
        "evaluations": 0,
        "bases": 0,
        "steps": 0,
        "nontrivial_hashes": set(),
        "states": set(),
        "stats": {},
        "failures": [],
        "samples": [],
        "digests": [],
        "harness_errors": [],
    }
    for i in range(start, stop):
        faulthandler.dump_traceback_later(per_run_cap, exit=True)
        try:
            rng = derive_rng(seed, pid, i)
            base = prop.generate(rng, tier, i)
            agg["bases"] += 1
            h = hashlib.sha256()
            for sc in concrete_cases(prop, base, tier):
                # the cap is per concrete execution: a hung run kills the worker (exit 2), never exit 0
                faulthandler.cancel_dump_traceback_later()
                faulthandler.dump_traceback_later(per_run_cap, exit=True)
                res = prop.execute(sc)
                agg["evaluations"] += 1
                agg["steps"] += res.steps
                h.update(res.log.digest().encode())
                if res.nontrivial:
                    agg["nontrivial_hashes"].add(short_hash(sc))
                agg["states"] |= res.states
                for k, v in res.stats.items():
                    agg["stats"][k] = agg["stats"].get(k, 0) + v
                if res.violations and len(agg["failures"]) < max_fail:
                    agg["failures"].append({"index": i, "chunk": [start, stop], "scenario": sc, "violations": [v.to_json() for v in res.violations], "digest": res.log.digest()})
                elif res.violations:
                    agg["stats"]["failures_not_kept"] = agg["stats"].get("failures_not_kept", 0) + 1
                if len(agg["samples"]) < 2 and res.nontrivial and i % 7 == start % 7:
                    agg["samples"].append(prop.sample_repr(sc) if hasattr(prop, "sample_repr") else sc)
            agg["digests"].append((i, h.hexdigest()[:16]))
        except HarnessError as e:
            agg["harness_errors"].append({"index": i, "error": f"{e}", "trace": traceback.format_exc()[-1500:]})
        except Exception as e:  # noqa: a harness bug, not a violation
            agg["harness_errors"].append({"index": i, "error": f"{type(e).__name__}: {e}", "trace": traceback.format_exc()[-1500:]})
        finally:
            faulthandler.cancel_dump_traceback_later()
    agg["nontrivial_hashes"] = sorted(agg["nontrivial_hashes"])
    agg["states"] = sorted(agg["states"])
    return agg


def merge(aggs):
    out = {
        "evaluations": 0, "bases": 0, "steps": 0, "nontrivial_hashes": set(), "states": set(), "stats": {},
        "failures": [], "samples": [], "digests": [], "harness_errors": [],
    }
    for a in aggs:
        for k in ("evaluations", "bases", "steps"):
            out[k] += a[k]
        out["nontrivial_hashes"] |= set(a["nontrivial_hashes"])
        out["states"] |= set(a["states"])
        for k, v in a["stats"].items():
            out["stats"][k] = out["stats"].get(k, 0) + v
        out["failures"] += a["failures"]
        out["samples"] += a["samples"]
        out["digests"] += a["digests"]
        out["harness_errors"] += a["harness_errors"]
    out["failures"].sort(key=lambda f: (f["index"], canon(f["scenario"])))
    out["digests"].sort()
    return out


def run_batch(pid, tier, seed, n_indices, workers, wall_cap):
    """Runs indices [0, n_indices) in forked workers; returns (merged, truncated, wall)."""
    t0 = time.time()
    chunk = max(1, min(getattr(load_prop(pid), "CHUNK", 64), n_indices // (workers * 4) or 1))
    tasks = [(s, min(n_indices, s + chunk)) for s in range(0, n_indices, chunk)]
    aggs = []
    truncated = False
    if workers <= 1:
        for s, e in tasks:
            if time.time() - t0 > wall_cap:
                truncated = True
                break
            aggs.append(run_chunk(pid, tier, seed, s, e))
    else:
        ctx = multiprocessing.get_context("fork")
        with cf.ProcessPoolExecutor(max_workers=workers, mp_context=ctx) as ex:
            pending = {}
            it = iter(tasks)
            done_all = False
            while True:
                while len(pending) < workers * 2 and not done_all and not truncated:
                    try:
                        s, e = next(it)
                    except StopIteration:
                        done_all = True
                        break
                    pending[ex.submit(run_chunk, pid, tier, seed, s, e)] = (s, e)
                if not pending:
                    break
                done, _ = cf.wait(list(pending), timeout=5, return_when=cf.FIRST_COMPLETED)
                for f in done:
                    s, e = pending.pop(f)
                    try:
                        aggs.append(f.result())
                    except Exception as err:  # worker died (e.g. faulthandler exit on a hang)
                        raise HarnessError(f"worker for runs [{s},{e}) died: {type(err).__name__}: {err}")
                if time.time() - t0 > wall_cap and not done_all:
                    truncated = True
    return merge(aggs), truncated, time.time() - t0


# ---------------------------------------------------------------------------------------
# known findings
# ---------------------------------------------------------------------------------------
def load_known():
    if not os.path.exists(KNOWN):
        return {"known": [], "fixed": []}
    with open(KNOWN) as f:
        return json.load(f)


def sig_matches(signature, sig):
    for k, want in signature.items():
        got = sig.get(k)
        if isinstance(want, list):
            if got not in want:
                return False
        elif got != want:
            return False
    return True


def match_known(known, pid, violation):
    for kf in known["known"]:
        if kf["property"] == pid and sig_matches(kf["signature"], violation["sig"]):
            return kf
    return None


# ---------------------------------------------------------------------------------------
# replay and minimisation
# ---------------------------------------------------------------------------------------
def group_key(prop, sig):
    gk = getattr(prop, "GROUP_KEYS", None)
    return short_hash({k: sig[k] for k in sorted(sig) if gk is None or k in gk})


def fails_same(prop, sc, oracle, key=None):
    """Does the scenario fail the same oracle (and, if given, with the same signature class)?"""
    try:
        res = prop.execute(sc)
    except Exception:
        return None
    for v in res.violations:
        if v.oracle == oracle and (key is None or group_key(prop, v.sig) == key):
            return res, v
    return None


# ---------------------------------------------------------------------------------------
# the parent process never executes code under test: everything runs in a forked child, so that
# every child starts from the same pristine interpreter state (what a module remembers from one
# scenario to the next is itself something the checks look for: see find_prelude)
# ---------------------------------------------------------------------------------------
def in_child(fn, *args, timeout=900):
    ctx = multiprocessing.get_context("fork")
    with cf.ProcessPoolExecutor(max_workers=1, mp_context=ctx) as ex:
        fut = ex.submit(fn, *args)
        try:
            return fut.result(timeout=timeout)
        except HarnessError:
            raise
        except Exception as err:  # noqa
            raise HarnessError(f"child running {fn.__name__} failed: {type(err).__name__}: {err}")


def _child_fails_same(pid, sc, oracle, key):
    got = fails_same(load_prop(pid), sc, oracle, key)
    return None if got is None else (got[0].log.digest(), got[1].to_json())


def _child_minimise(pid, sc, oracle, known, key):
    prop = load_prop(pid)
    sc_min, runs = minimise(prop, sc, oracle, known, pid, key)
    got = fails_same(prop, sc_min, oracle, key)
    return sc_min, runs, None if got is None else (got[0].log.digest(), got[1].to_json())


def _child_replay_hits(path):
    return replay(path, verbose=False)[0]


def _child_sequence(pid, tier, seed, start, index, target):
    """The concrete scenarios a worker executed in its chunk before (and including) the failing one."""
    prop = load_prop(pid)
    seq = []
    for i in range(start, index + 1):
        base = prop.generate(derive_rng(seed, pid, i), tier, i)
        for sc in concrete_cases(prop, base, tier):
            seq.append(sc)
            if i == index and canon(sc) == target:
                return seq
    return None


def _child_exec_seq(pid, scs, oracle, key):
    prop = load_prop(pid)
    for sc in scs[:-1]:
        faulthandler.dump_traceback_later(120, exit=True)
        try:
            prop.execute(sc)
        except Exception:  # noqa: the prelude is not judged
            pass
        finally:
            faulthandler.cancel_dump_traceback_later()
    return _child_fails_same(pid, scs[-1], oracle, key)


def find_prelude(pid, tier, seed, fl, oracle, key, budget=90):
    """The failing scenario passes when executed alone in a fresh process: it failed because of what the
    code under test remembered from scenarios executed earlier in the same worker process.  Returns a
    short list of earlier scenarios after which it fails again (each try in a fresh child)."""
    start = fl["chunk"][0]
    seq = in_child(_child_sequence, pid, tier, seed, start, fl["index"], canon(fl["scenario"]))
    if seq is None:
        raise HarnessError("could not regenerate the failing worker's scenario sequence")
    if in_child(_child_exec_seq, pid, seq, oracle, key) is None:
        raise HarnessError(f"scenario of run {fl['index']} fails neither alone nor after its worker's earlier scenarios: execution is not deterministic")
    prelude, last = seq[:-1], seq[-1]
    tries = 0
    for j in range(len(prelude) - 1, -1, -1):  # one earlier scenario is usually enough: nearest first
        if tries >= budget // 2:
            break
        tries += 1
        if in_child(_child_exec_seq, pid, [prelude[j], last], oracle, key) is not None:
            return [prelude[j]], tries
    n = max(1, len(prelude) // 2)
    while n >= 1 and tries < budget and len(prelude) > 1:  # otherwise drop blocks while it still fails
        i = 0
        shrunk = False
        while i < len(prelude) and tries < budget:
            cand = prelude[:i] + prelude[i + n:]
            tries += 1
            if cand and in_child(_child_exec_seq, pid, cand + [last], oracle, key) is not None:
                prelude = cand
                shrunk = True
            else:
                i += n
        if not shrunk:
            n //= 2
    return prelude, tries


def minimise(prop, sc, oracle, known, pid, key=None, budget_runs=300, budget_s=60):
    t0 = time.time()
    runs = 0
    cur = sc
    improved = True
    while improved and runs < budget_runs and time.time() - t0 < budget_s:
        improved = False
        for cand in prop.shrink_candidates(cur):
            if runs >= budget_runs or time.time() - t0 > budget_s:
                break
            runs += 1
            got = fails_same(prop, cand, oracle, key)
            if got is None:
                continue
            # never shrink an unknown violation into a known finding
            if match_known(known, pid, got[1].to_json()) is not None:
                continue
            cur = cand
            improved = True
            break
    return cur, runs


def write_replay(pid, sc, violation, digest, found=None, prelude=None):
    os.makedirs(REPLAYS, exist_ok=True)
    body = {
        "property": pid,
        "found_by": found or {},
        "oracle": violation["oracle"],
        "message": violation["message"],
        "sig": violation["sig"],
        "scenario": sc,
        **({"prelude": prelude, "prelude_note": "executed first, in order, in the same process (results ignored): the violation depends on what the code under test remembers from them"} if prelude else {}),
        "pythonhashseed": os.environ.get("PYTHONHASHSEED"),
        "engine_version": ENGINE_VERSION,
        "event_log_digest": digest,
    }
    name = f"{pid}-{short_hash(body)}.json"
    path = os.path.join(REPLAYS, name)
    with open(path, "w") as f:
        json.dump(body, f, indent=1, sort_keys=True)
    return path


def replay(path, verbose=True):
    """Re-executes a replay file.  Returns (reproduced, digest_equal, result)."""
    with open(path) as f:
        body = json.load(f)
    prop = load_prop(body["property"])
    for sc in body.get("prelude") or []:
        try:
            prop.execute(sc)
        except Exception:  # noqa: the prelude is not judged
            pass
    res = prop.execute(body["scenario"])
    hit = [v for v in res.violations if v.oracle == body["oracle"]]
    same_digest = res.log.digest() == body.get("event_log_digest")
    if verbose:
        for line in res.log.lines[-40:]:
            print("  |", line)
    return bool(hit), same_digest, res


def confirm_in_fresh_process(path):
    cmd = [sys.executable, os.path.join(VERIF, "check.py"), "replay", path, "--quiet"]
    env = dict(os.environ)
    p = subprocess.run(cmd, capture_output=True, text=True, env=env, timeout=600)
    return p.returncode == 1 and "REPRODUCED" in p.stdout and "digest=same" in p.stdout, p.stdout + p.stderr


# ---------------------------------------------------------------------------------------
# the check
# ---------------------------------------------------------------------------------------
def run_check(pid, tier, seed, workers=None, n_indices=None, wall_cap=None):
    t0 = time.time()
    prop = load_prop(pid)
    workers = workers or int(os.environ.get("VERIF_WORKERS", 0)) or min(16, os.cpu_count() or 1)
    n = n_indices or int(os.environ.get("VERIF_RUNS", 0)) or prop.BUDGET[tier]
    wall_cap = wall_cap or float(os.environ.get("VERIF_BUDGET_S", 0)) or prop.WALL_CAP[tier]
    known = load_known()
    print(f"[{pid}] tier={tier} VERIF_SEED={seed} runs={n} workers={workers} PYTHONHASHSEED={os.environ.get('PYTHONHASHSEED')}")
    sys.stdout.flush()
    exit_code = 0
    merged, truncated, wall = run_batch(pid, tier, seed, n, workers, wall_cap)

    # known findings: directed replays
    known_lines = []
    known_hits = {}
    for kf in known["known"]:
        if kf["property"] != pid:
            continue
        rp = os.path.join(VERIF, kf["replay"])
        ok = in_child(_child_replay_hits, rp)
        if ok:
            known_lines.append(f"KNOWN-FINDING: property={pid} {kf['what']}")
        else:
            known_lines.append(f"note: known finding {kf['id']} no longer reproduces from {kf['replay']}")
        known_hits[kf["id"]] = 0

    # classify failures
    unknown = {}
    for fl in merged["failures"]:
        v = fl["violations"][0]
        kf = match_known(known, pid, v)
        if kf is not None:
            known_hits[kf["id"]] += 1
            continue
        key = group_key(prop, v["sig"])
        unknown.setdefault(key, []).append(fl)

    violation_lines = []
    reported = []
    for key, fls in sorted(unknown.items())[:6]:
        fl = fls[0]
        v = fl["violations"][0]
        found = {"VERIF_SEED": seed, "tier": tier, "run_index": fl["index"], "note": "the scenario below is the minimised one; run_index regenerates the original"}
        prelude = None
        alone = in_child(_child_fails_same, pid, fl["scenario"], v["oracle"], key)
        if alone is not None:
            sc_min, nruns, got = in_child(_child_minimise, pid, fl["scenario"], v["oracle"], known, key)
            if got is None:  # minimisation itself was misled by state carried from one candidate to the next
                sc_min, nruns, got = fl["scenario"], 0, alone
        else:
            # passes alone in a fresh process: it depends on what earlier scenarios left behind in the worker
            prelude, nruns = find_prelude(pid, tier, seed, fl, v["oracle"], key)
            sc_min = fl["scenario"]
            got = in_child(_child_exec_seq, pid, prelude + [sc_min], v["oracle"], key)
            if got is None:
                raise HarnessError(f"scenario of run {fl['index']} with its prelude does not fail on re-execution")
            found["note"] = "fails only after the prelude scenarios have run in the same process; neither is minimised"
        digest, v_min = got
        path = write_replay(pid, sc_min, v_min, digest, found, prelude)
        ok, out = confirm_in_fresh_process(path)
        if not ok and prelude is None and sc_min is not fl["scenario"]:
            path = write_replay(pid, fl["scenario"], alone[1], alone[0], found)
            v_min = alone[1]
            ok, out = confirm_in_fresh_process(path)
        if not ok:
            raise HarnessError(f"replay {path} did not reproduce in a fresh interpreter:\n{out[-2000:]}")
        violation_lines.append(f"VIOLATION property={pid} replay={path}")
        reported.append({"oracle": v_min["oracle"], "message": v_min["message"], "sig": v_min["sig"], "replay": path, "occurrences": len(fls), "minimise_runs": nruns,
                         **({"prelude_scenarios": len(prelude)} if prelude else {})})
        exit_code = 1
    if len(unknown) > 6:
        print(f"note: {len(unknown) - 6} further distinct violation signatures not minimised")

    if merged["harness_errors"]:
        exit_code = 2
        for he in merged["harness_errors"][:5]:
            print(f"HARNESS-ERROR run={he['index']} {he['error']}\n{he['trace']}")

    wall = time.time() - t0
    write_evidence(prop, pid, tier, seed, merged, truncated, wall, reported, known_hits, workers)
    for line in known_lines:
        print(line)
    for r in reported:
        print(f"  violation {r['oracle']}: {r['message']} (x{r['occurrences']})")
    for line in violation_lines:
        print(line)
    ev = merged["evaluations"]
    print(f"[{pid}] evaluations={ev} bases={merged['bases']} steps={merged['steps']} wall={wall:.1f}s rate={ev / max(wall, 1e-9) * 3600:.0f}/h truncated={truncated} exit={exit_code}")
    return exit_code


def write_evidence(prop, pid, tier, seed, merged, truncated, wall, reported, known_hits, workers):
    os.makedirs(EVIDENCE, exist_ok=True)
    stats = merged["stats"]
    faults = {k.split(".", 1)[1]: v for k, v in sorted(stats.items()) if k.startswith("fault.")}
    fault_sites = {k.split(".", 1)[1]: v for k, v in sorted(stats.items()) if k.startswith("fault_at.")}
    probes = {k.split(".", 1)[1]: v for k, v in sorted(stats.items()) if k.startswith("probe.")}
    other = {k: v for k, v in sorted(stats.items()) if not k.startswith(("fault.", "fault_at.", "probe."))}
    samples = merged["samples"][:3] or [{"note": "no non-trivial sample captured"}]
    batch_digest = hashlib.sha256(canon(merged["digests"]).encode()).hexdigest()[:16]
    ev = {
        "property_id": pid,
        "tier": tier,
        "seed": seed,
        "level": prop.LEVEL[tier],
        "coverage": {
            "evaluations": merged["evaluations"],
            "distinct_nontrivial": len(merged["nontrivial_hashes"]),
            "rule": prop.RULE,
            "samples": samples,
            "base_scenarios": merged["bases"],
            "logical_steps": merged["steps"],
            "runs_per_hour": int(merged["evaluations"] / max(wall, 1e-9) * 3600),
            "simulated_time": "none: the repository has no clocks or timers; time is the simulator's event sequence number (logical_steps)",
            "faults_fired": faults,
            "fault_sites": fault_sites,
            "probes": probes,
            "counters": other,
            "distinct_states": len(merged["states"]),
            "distinct_states_measure": getattr(prop, "STATE_MEASURE", "n/a"),
            "components": getattr(prop, "COMPONENTS", {}),
            "truncated_by_wall_cap": truncated,
            "workers": workers,
            "batch_digest": batch_digest,
            "known_finding_hits": known_hits,
            "violations_reported": reported,
            "exhaustive": False,
        },
        "assumptions": list(getattr(prop, "ASSUMPTIONS", [])),
        "wall_s": round(wall, 2),
        "violations": len(reported),
    }
    with open(os.path.join(EVIDENCE, f"{pid}.json"), "w") as f:
        json.dump(ev, f, indent=1, sort_keys=True)
        f.write("\n")
