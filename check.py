"""Command-line front end (see DESIGN.md section 8).  Run through ./check."""
import argparse
import os
import sys

HERE = os.path.dirname(os.path.abspath(__file__))


def reexec_if_needed():
    want = os.environ.get("VERIF_HASHSEED", "0")
    if os.environ.get("PYTHONHASHSEED") != want:
        env = dict(os.environ, PYTHONHASHSEED=want)
        os.execve(sys.executable, [sys.executable] + sys.argv, env)


def main():
    reexec_if_needed()
    sys.path.insert(0, HERE)
    sys.path.insert(0, os.path.join(os.environ.get("VERIF_REPO", "/repo"), "src"))
    import torch

    torch.set_num_threads(1)
    from simkit import runner, selftest
    from simkit.core import HarnessError

    ap = argparse.ArgumentParser()
    ap.add_argument("what")
    ap.add_argument("path", nargs="?")
    ap.add_argument("--tier", default=os.environ.get("VERIF_TIER", "quick"), choices=["quick", "thorough"])
    ap.add_argument("--replay")
    ap.add_argument("--quiet", action="store_true")
    ap.add_argument("--runs", type=int)
    ap.add_argument("--workers", type=int)
    args = ap.parse_args()
    seed = int(os.environ.get("VERIF_SEED", "0"))
    try:
        if args.what == "replay" or args.replay:
            path = args.replay or args.path
            ok, same, res = runner.replay(path, verbose=not args.quiet)
            if ok:
                import json

                pid = json.load(open(path))["property"]
                print(f"REPRODUCED digest={'same' if same else 'DIFFERENT'}")
                for v in res.violations:
                    print(f"  {v.oracle}: {v.message}")
                print(f"VIOLATION property={pid} replay={path}")
                return 1
            print("not reproduced")
            return 0
        if args.what == "digests":
            import json

            merged, _, _ = runner.run_batch(args.path, "quick", seed, args.runs or 20, args.workers or 1, 600)
            if merged["harness_errors"]:
                print(merged["harness_errors"][0])
                return 2
            print("DIGESTS " + json.dumps(merged["digests"]))
            return 0
        if args.what == "selftest-determinism":
            return selftest.determinism(seed, quick=args.tier == "quick")
        if args.what == "selftest-fs-fidelity":
            from props import c16

            return c16.fs_fidelity(seed)
        if args.what == "selftest-fidelity":
            from props import c17

            return c17.fidelity(seed)
        if args.what == "selftest-reach":
            return selftest.reach(seed, args.runs or 1500)
        if args.what == "selftest-sensitivity":
            return selftest.sensitivity(seed, only=[args.path] if args.path else None)
        if args.what not in runner.PROPS:
            print(f"unknown check {args.what}")
            return 2
        return runner.run_check(args.what, args.tier, seed, workers=args.workers, n_indices=args.runs)
    except HarnessError as e:
        print(f"HARNESS-ERROR {e}")
        return 2


if __name__ == "__main__":
    try:
        rc = main()
    except SystemExit:
        raise
    except BaseException as e:  # noqa
        import traceback

        traceback.print_exc()
        print(f"HARNESS-ERROR uncaught {type(e).__name__}: {e}")
        rc = 2
    sys.stdout.flush()
    sys.exit(rc)
