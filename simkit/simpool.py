"""SimPool: a single-threaded executable model of multiprocessing.Pool (DESIGN.md 3.4).

Events
  feed     the pool's task-handler pulls the next ``chunksize`` items from the caller's
           iterable (this runs caller code, which in the real pool runs on another thread)
  assign   an idle worker takes the head of the FIFO task queue
  work(w)  busy worker ``w`` executes ONE item of its chunk (``mapstar`` semantics: the first
           exception fails the whole chunk and the rest of the chunk is not executed)
  deliver  the consumer's ``next()`` returns: ordered -> the next index only; unordered ->
           chunks in completion order, items of a chunk in order
The set of enabled events is computed and the tape picks one.  Function, initargs, every
task item and every result cross a pickle round trip (spawn semantics).
"""
import contextlib
import pickle

import torch

from .core import HarnessError


def _rt(obj):
    return pickle.loads(pickle.dumps(obj, protocol=pickle.HIGHEST_PROTOCOL))


class PoolStats:
    def __init__(self):
        self.events = 0
        self.pools = 0
        self.tasks = 0
        self.max_busy = 0
        self.max_lag = 0
        self.delivery = []  # chunk indices in delivery order, per imap call
        self.kinds = {"feed": 0, "assign": 0, "work": 0, "deliver": 0}
        self.out_of_order = 0
        self.input_errors = 0
        self.task_errors = 0
        self.async_jobs = 0


class SimPool:
    def __init__(self, sim, processes=None, initializer=None, initargs=(), maxtasksperchild=None, context="fork"):
        self.sim = sim
        self.n = processes or 1
        if self.n < 1:
            raise ValueError("Number of processes must be at least 1")
        self.context = context
        self.state = "RUN"
        self._pending = []
        sim.stats.pools += 1
        if initializer is not None:
            # every worker process unpickles (spawn) and runs the initializer once
            for _ in range(self.n):
                init, args = _rt((initializer, tuple(initargs))) if context == "spawn" else (initializer, tuple(initargs))
                init(*args)

    # context manager = terminate on exit
    def __enter__(self):
        if self.state != "RUN":
            raise ValueError("Pool not running")
        return self

    def __exit__(self, *exc):
        self.terminate()

    def close(self):
        if self.state == "RUN":
            self.state = "CLOSE"

    def terminate(self):
        self.state = "TERMINATE"

    def join(self):
        if self.state == "RUN":
            raise ValueError("Pool is still running")
        self._drain()

    def imap(self, func, iterable, chunksize=1):
        return self._imap(func, iterable, chunksize, True)

    def imap_unordered(self, func, iterable, chunksize=1):
        return self._imap(func, iterable, chunksize, False)

    def map(self, func, iterable, chunksize=None):
        return list(self._imap(func, iterable, chunksize or 1, True))

    def starmap(self, func, iterable, chunksize=None):
        return list(self._imap(func, iterable, chunksize or 1, True, star=True))

    def apply(self, func, args=(), kwds={}):
        return self.apply_async(func, args, kwds).get()

    # --- asynchronous results: a submitted job runs when the tape picks it among those pending, at the
    # latest when somebody waits for it (get / wait / close + join)
    def apply_async(self, func, args=(), kwds={}, callback=None, error_callback=None):
        if self.state != "RUN":
            raise ValueError("Pool not running")
        wfunc, wargs, wkw = _rt(func), _rt(tuple(args)), _rt(dict(kwds))
        return self._submit(lambda: _rt(wfunc(*wargs, **wkw)), callback, error_callback)

    def map_async(self, func, iterable, chunksize=None, callback=None, error_callback=None):
        gen = self._imap(func, list(iterable), chunksize or 1, True)
        return self._submit(lambda: list(gen), callback, error_callback)

    def starmap_async(self, func, iterable, chunksize=None, callback=None, error_callback=None):
        gen = self._imap(func, list(iterable), chunksize or 1, True, star=True)
        return self._submit(lambda: list(gen), callback, error_callback)

    def _submit(self, thunk, callback, error_callback):
        r = SimAsyncResult(self, thunk, callback, error_callback)
        self._pending.append(r)
        self.sim.stats.async_jobs += 1
        return r

    def _drain(self, target=None):
        while self._pending and (target is None or not target.done):
            if self.state == "TERMINATE":
                self._pending.clear()
                return
            r = self._pending.pop(self.sim.tape.choose(len(self._pending)))
            self.sim.stats.events += 1
            r._run()

    def __getattr__(self, name):
        if name.startswith("__"):
            raise AttributeError(name)
        raise self.sim.unmodelled_call(f"Pool.{name}")

    # -------------------------------------------------------------------------------
    def _imap(self, func, iterable, chunksize, ordered, star=False):
        if self.state != "RUN":
            raise ValueError("Pool not running")
        if chunksize < 1:
            raise ValueError("Chunksize must be 1+, not {0:n}".format(chunksize))
        # the function travels to the workers by pickle; iter() on the input happens in the caller
        wfunc = _rt(func)
        if star:
            inner = wfunc
            wfunc = lambda a: inner(*a)  # noqa: E731
        it = iter(iterable)
        return self._run(wfunc, it, chunksize, ordered)

    def _run(self, func, it, chunksize, ordered):
        sim = self.sim
        st = sim.stats
        tape = sim.tape
        depth = sim.queue_depth
        taskq = []  # [(chunk index, items | None, exc)]
        workers = [None] * self.n
        completed = []  # [(chunk index, ok, payload)] in completion order
        buffer = []  # items of the chunk being delivered
        feed_done = False
        n_chunks = 0
        next_ordered = 0
        order = []
        st.delivery.append(order)
        budget = None
        while True:
            if self.state == "TERMINATE":
                return
            enabled = []
            if not feed_done and len(taskq) < depth:
                enabled.append(("feed", None))
            if taskq and any(w is None for w in workers):
                enabled.append(("assign", None))
            for wi, w in enumerate(workers):
                if w is not None:
                    enabled.append(("work", wi))
            if buffer:
                enabled.append(("deliver", None))
            elif ordered:
                if any(c[0] == next_ordered for c in completed):
                    enabled.append(("deliver", None))
            elif completed:
                enabled.append(("deliver", None))
            if not enabled:
                if feed_done and not taskq and not completed and all(w is None for w in workers):
                    return
                raise HarnessError("SimPool deadlock: nothing enabled but work remains")
            st.events += 1
            if st.events > sim.event_budget:
                raise HarnessError(f"SimPool exceeded its event budget ({sim.event_budget}): non-termination")
            kind, arg = enabled[tape.choose(len(enabled))]
            st.kinds[kind] += 1
            if kind == "feed":
                items = []
                exc = None
                try:
                    for _ in range(chunksize):
                        items.append(next(it))
                except StopIteration:
                    feed_done = True
                except Exception as e:  # noqa: caller code failed while generating tasks
                    # CPython: the partial batch is lost, the exception is delivered at the next index
                    exc = e
                    items = []
                    feed_done = True
                    st.input_errors += 1
                if exc is not None:
                    taskq.append((n_chunks, None, exc))
                    n_chunks += 1
                elif items:
                    taskq.append((n_chunks, [_rt(x) for x in items], None))
                    n_chunks += 1
                    st.tasks += len(items)
            elif kind == "assign":
                idle = [wi for wi, w in enumerate(workers) if w is None]
                wi = idle[tape.choose(len(idle))]
                ci, items, exc = taskq.pop(0)
                workers[wi] = {"ci": ci, "items": items, "pos": 0, "out": [], "exc": exc}
                busy = sum(1 for w in workers if w is not None)
                st.max_busy = max(st.max_busy, busy)
            elif kind == "work":
                w = workers[arg]
                done = False
                if w["exc"] is not None:
                    completed.append((w["ci"], False, w["exc"]))
                    done = True
                else:
                    x = w["items"][w["pos"]]
                    try:
                        w["out"].append(_rt(func(x)))
                        w["pos"] += 1
                        if w["pos"] == len(w["items"]):
                            completed.append((w["ci"], True, w["out"]))
                            done = True
                    except Exception as e:  # noqa: mapstar: the whole chunk fails
                        st.task_errors += 1
                        try:
                            e = _rt(e)
                        except Exception:
                            e = RuntimeError(f"{type(e).__name__}: {e}")
                        completed.append((w["ci"], False, e))
                        done = True
                if done:
                    workers[arg] = None
                    st.max_lag = max(st.max_lag, len(completed))
            else:  # deliver
                if not buffer:
                    if ordered:
                        k = next(i for i, c in enumerate(completed) if c[0] == next_ordered)
                    else:
                        k = 0
                    ci, ok, payload = completed.pop(k)
                    next_ordered = ci + 1
                    if order and ci < order[-1]:
                        st.out_of_order += 1
                    order.append(ci)
                    if not ok:
                        raise payload
                    buffer = list(payload)
                    if not buffer:
                        continue
                item = buffer.pop(0)
                yield item


class SimAsyncResult:
    def __init__(self, pool, thunk, callback, error_callback):
        self.pool, self.thunk, self.callback, self.error_callback = pool, thunk, callback, error_callback
        self.done = False
        self.value = self.exc = None

    def _run(self):
        try:
            self.value = self.thunk()
        except Exception as e:  # noqa
            self.exc = e
        self.done = True
        if self.exc is None and self.callback is not None:
            self.callback(self.value)
        if self.exc is not None and self.error_callback is not None:
            self.error_callback(self.exc)

    def wait(self, timeout=None):
        self.pool._drain(self)

    def ready(self):
        return self.done

    def successful(self):
        if not self.done:
            raise ValueError("not ready")
        return self.exc is None

    def get(self, timeout=None):
        self.pool._drain(self)
        if not self.done:
            raise HarnessError("result of a terminated pool requested")
        if self.exc is not None:
            raise self.exc
        return self.value


class SimContext:
    def __init__(self, sim, kind):
        self.sim, self.kind = sim, kind

    def Pool(self, processes=None, initializer=None, initargs=(), maxtasksperchild=None):
        return SimPool(self.sim, processes, initializer, initargs, maxtasksperchild, context=self.kind)


class PoolSim:
    """Owns the tape and the statistics of all pools created during one run."""

    def __init__(self, tape, queue_depth=4, event_budget=20000):
        self.tape = tape
        self.queue_depth = max(1, queue_depth)
        self.event_budget = event_budget
        self.stats = PoolStats()
        self.dataloaders = 0
        self.unmodelled = []

    def unmodelled_call(self, what):
        """Concurrency the simulator does not model was requested: the run ends as a harness error
        (exit 2) whatever the code under test does with the exception returned here."""
        self.unmodelled.append(what)
        return HarnessError(f"{what} is not modelled by SimPool")

    @contextlib.contextmanager
    def patched(self):
        import torch.multiprocessing as tmp
        import torch.utils.data as tud

        saved = (tmp.Pool, tmp.get_context, tud.DataLoader)
        sim = self
        real_dl = tud.DataLoader

        def Pool(processes=None, initializer=None, initargs=(), maxtasksperchild=None):
            return SimPool(sim, processes, initializer, initargs, maxtasksperchild, context="fork")

        def get_context(method=None):
            return SimContext(sim, method or "fork")

        def DataLoader(dataset, *a, num_workers=0, **k):
            if not num_workers:
                return real_dl(dataset, *a, num_workers=0, **k)
            sim.dataloaders += 1
            return SimDataLoader(dataset, *a, **k)

        import concurrent.futures as cf
        import multiprocessing as mp
        import threading

        def refuse(what):
            def f(*a, **k):
                raise sim.unmodelled_call(what)

            return f

        others = [(mp, "Pool", Pool), (mp, "get_context", get_context), (mp, "Process", refuse("multiprocessing.Process")),
                  (cf, "ProcessPoolExecutor", refuse("concurrent.futures.ProcessPoolExecutor")), (cf, "ThreadPoolExecutor", refuse("concurrent.futures.ThreadPoolExecutor")),
                  (threading.Thread, "start", refuse("threading.Thread.start"))]
        saved_others = [(o, n, getattr(o, n)) for o, n, _ in others]
        for o, n, v in others:
            setattr(o, n, v)
        tmp.Pool, tmp.get_context, tud.DataLoader = Pool, get_context, DataLoader
        try:
            yield self
        finally:
            tmp.Pool, tmp.get_context, tud.DataLoader = saved
            for o, n, v in saved_others:
                setattr(o, n, v)
            if sim.unmodelled:
                raise HarnessError(f"the code under test used concurrency that SimPool does not model: {sorted(set(sim.unmodelled))}")


class SimDataLoader:
    """Stub for DataLoader(num_workers > 0): in-order delivery of pickled items (torch's
    in-order contract is assumed, not tested)."""

    def __init__(self, dataset, batch_size=1, shuffle=False, collate_fn=None, drop_last=False, sampler=None, batch_sampler=None, **kw):
        if shuffle or sampler is not None or batch_sampler is not None:
            raise HarnessError("SimDataLoader models sequential, unshuffled loading only")
        self.dataset, self.collate_fn, self.batch_size, self.drop_last = _rt(dataset), collate_fn, batch_size, drop_last

    def __len__(self):
        n = len(self.dataset)
        if self.batch_size is None:
            return n
        return n // self.batch_size if self.drop_last else -(-n // self.batch_size)

    def __iter__(self):
        from torch.utils.data import default_collate

        collate = self.collate_fn or default_collate
        batch = []
        for i in range(len(self.dataset)):
            item = _rt(self.dataset[i])
            if self.batch_size is None:
                yield item
                continue
            batch.append(item)
            if len(batch) == self.batch_size:
                yield collate(batch)
                batch = []
        if batch and not self.drop_last:
            yield collate(batch)
