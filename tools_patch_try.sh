#!/bin/bash
# usage: tools_patch_try.sh <patch.diff> <check id> [quick|thorough]
# Runs one check against an arbitrary patch (benign or breaking) in a private scratch worktree of /repo.
patch=$(readlink -f "$1"); id=$2; tier=${3:-quick}
wt=/tmp/patchtry-$$
git -C /repo worktree add -q --detach $wt HEAD || exit 2
git -C $wt apply "$patch" || { echo "patch does not apply"; git -C /repo worktree remove --force $wt; exit 2; }
echo "== $(basename $patch) vs $id ($tier)"
VERIF_REPO=$wt /verif/check $id --tier $tier 2>&1 | grep -v "^KNOWN" | tail -6 | cut -c1-400
git -C /repo worktree remove --force $wt
