#!/bin/bash
# usage: tools_seed_try.sh <seeded-dir-name> [check ids...]   applies the patch to /repo, runs the checks, undoes it
name=$1; shift
ids=${@:-$(echo $name | cut -d- -f1)}
git -C /repo status --short | grep -q . && { echo "/repo is dirty"; exit 2; }
git -C /repo apply /verif/seeded/$name/patch.diff || { echo "patch does not apply"; exit 2; }
for id in $ids; do echo "== $name vs $id"; /verif/check $id 2>&1 | grep -v "^KNOWN" | tail -4 | cut -c1-300; done
git -C /repo checkout -- .
