"""SimFS fidelity, part 2: small scripted workloads that use the file-system calls SimFS models
beyond those the repository makes today (mkstemp + fdopen, fsync, temporary directories,
directory rename, rmtree, rmdir, copyfile, truncating / appending opens, pathlib), run for
EVERY crash index under SimFS and, with a real ``os._exit`` before the k-th mutating call, on
tmpfs.  Informational (never part of a verdict)."""
import os
import re
import shutil

from .simfs import SimFS, patched, ROOT


# ---------------------------------------------------------------------------------------
# workloads: plain code against the standard library, given the directory to work in
# ---------------------------------------------------------------------------------------
def w_atomic_save(d):
    import tempfile

    os.makedirs(d + "/state", exist_ok=True)
    for round_ in range(2):
        fd, part = tempfile.mkstemp(".part", "tmp-", d + "/state")
        with os.fdopen(fd, "wb") as f:
            f.write(b"payload %d" % round_ * 3)
            f.flush()
            os.fsync(f.fileno())
        os.replace(part, d + "/state/model.pt")
        with open(d + "/hist.csv", "a") as f:
            f.write(f"row {round_}\n")
            f.flush()
            os.fsync(f.fileno())


def w_staging_dir(d):
    import tempfile

    os.makedirs(d + "/out")
    with tempfile.TemporaryDirectory(prefix="tmp-stage", dir=d + "/out") as t:
        for name in ("a.pt", "b.pt"):
            with open(t + "/" + name, "wb") as f:
                f.write(name.encode() * 2)
        os.replace(t + "/a.pt", d + "/out/a.pt")
        os.replace(t + "/b.pt", d + "/out/b.pt")
        with open(t + "/left-behind", "w") as f:
            f.write("x")


def w_dir_rename(d):
    import tempfile

    os.makedirs(d + "/ckpt/old/sub")
    for p in ("/ckpt/old/m", "/ckpt/old/sub/o"):
        with open(d + p, "w") as f:
            f.write(p)
    t = tempfile.mkdtemp(prefix="tmp-new", dir=d + "/ckpt")
    with open(t + "/m", "w") as f:
        f.write("new m")
    os.mkdir(t + "/sub")
    with open(t + "/sub/o", "w") as f:
        f.write("new o")
    os.rename(t, d + "/ckpt/new")
    shutil.rmtree(d + "/ckpt/old")


def w_truncate_append_copy(d):
    import pathlib

    os.makedirs(d)
    with open(d + "/f", "w") as f:
        f.write("first")
    with open(d + "/f", "w") as f:  # truncates, then writes
        f.write("second")
    with open(d + "/f", "a") as f:
        f.write("+more")
    shutil.copyfile(d + "/f", d + "/g")
    os.mkdir(d + "/e")
    shutil.move(d + "/g", d + "/e")
    pathlib.Path(d + "/f").unlink()
    pathlib.Path(d + "/f").unlink(missing_ok=True)
    os.remove(d + "/e/g")
    os.rmdir(d + "/e")


def w_raw_descriptor(d):
    import tempfile

    os.makedirs(d)
    fd, p = tempfile.mkstemp(prefix="tmp-raw", dir=d)
    os.write(fd, b"abc")
    os.write(fd, b"def")
    os.close(fd)
    os.rename(p, d + "/final")
    with open(d + "/big", "wb", buffering=0) as f:  # unbuffered: every write reaches the kernel at once
        for i in range(5):
            f.write(bytes([65 + i]) * 40000)


WORKLOADS = [w_atomic_save, w_staging_dir, w_dir_rename, w_truncate_append_copy, w_raw_descriptor]


# ---------------------------------------------------------------------------------------
def _normalise(files, dirs):
    """Random temporary names differ between the two sides: every path component that starts with
    'tmp' becomes 'tmp*'; what is compared is the sorted list of (path, content) and of directories."""
    def n(p):
        return "/".join("tmp*" if c.startswith("tmp") else c for c in p.split("/"))

    return sorted((n(p), bytes(b)) for p, b in files.items()), sorted(n(p) for p in dirs)


def _sim_run(work, k):
    fs = SimFS()
    with patched(fs):
        fs.start_process({"kind": "crash", "at": k} if k is not None else None)
        try:
            work(ROOT + "/w")
        except BaseException:
            if not fs.dead:
                raise
    pre = ROOT + "/"
    return _normalise({p[len(pre):]: d for p, d in fs.files.items()}, {p[len(pre):] for p in fs.dirs if p != ROOT}), fs.total_ops, [o[0] for o in fs.oplog]


def _real_child(work, root, k):
    """Runs in a forked child: counts mutating calls the way SimFS does and dies before the k-th."""
    import builtins
    import io
    import tempfile

    count = [0]

    def op():
        if count[0] == k:
            os._exit(17)
        count[0] += 1

    r_open, r_mkdir, r_replace, r_rename, r_remove, r_unlink, r_rmdir = builtins.open, os.mkdir, os.replace, os.rename, os.remove, os.unlink, os.rmdir
    r_mkstemp, r_fdopen, r_write, r_ntf = tempfile.mkstemp, os.fdopen, os.write, tempfile.NamedTemporaryFile

    class Proxy:
        # buffered files of these workloads stay far below one buffer: their bytes reach the kernel at
        # flush / close (how much a buffer holds is a knob of SimFS, not something compared here)
        def __init__(self, f, unbuffered=False):
            self._f, self._dirty, self._unbuffered = f, False, unbuffered

        def write(self, b):
            if self._unbuffered:
                op()
                return self._f.write(b)
            self._dirty = True
            return self._f.write(b)

        def flush(self):
            if self._dirty:
                op()
                self._dirty = False
            self._f.flush()

        def close(self):
            if not self._f.closed:
                self.flush()
            self._f.close()

        def __enter__(self):
            return self

        def __exit__(self, *a):
            self.close()

        def __getattr__(self, name):
            return getattr(self._f, name)

    def open_(path, mode="r", *a, **kw):
        p = os.fspath(path) if not isinstance(path, int) else None
        if p is not None and p.startswith(root) and any(c in mode for c in "wax"):
            if not os.path.exists(p):
                op()  # create
            elif "w" in mode and os.path.getsize(p) > 0:
                op()  # truncate
            unbuffered = (a[0] if a else kw.get("buffering", -1)) == 0
            return Proxy(r_open(p, mode, *a, **kw), unbuffered)
        return r_open(path, mode, *a, **kw)

    def counted(real, cond=None):
        def f(*a, **k):
            if cond is None or cond(*a, **k):
                op()
            return real(*a, **k)

        return f

    def mkstemp(*a, **k):
        op()
        return r_mkstemp(*a, **k)

    def fdopen(fd, mode="r", *a, **k):
        return Proxy(r_fdopen(fd, mode, *a, **k)) if any(c in mode for c in "wax") else r_fdopen(fd, mode, *a, **k)

    def copyfile(src, dst, **k):
        if os.path.isdir(dst):
            dst = os.path.join(dst, os.path.basename(src))
        with r_open(src, "rb") as f:
            data = f.read()
        with open_(dst, "wb") as g:
            g.write(data)
        return dst

    builtins.open = io.open = open_
    os.mkdir = counted(r_mkdir, lambda p, *a, **k: not os.path.isdir(p))
    os.replace, os.rename = counted(r_replace), counted(r_rename)
    exists = lambda p, *a, **k: k.get("dir_fd") is not None or os.path.lexists(p)  # noqa: E731 (a failing call is not an operation)
    os.remove, os.unlink, os.rmdir = counted(r_remove, exists), counted(r_unlink, exists), counted(r_rmdir, exists)
    os.write = counted(r_write)
    os.fdopen = fdopen
    tempfile.mkstemp = mkstemp
    shutil.copyfile = shutil.copy = copyfile
    try:
        work(root + "/w")
    except BaseException:
        os._exit(5)
    os._exit(0)


def _real_run(work, k):
    root = f"/dev/shm/verif-fsfid2-{os.getpid()}"
    shutil.rmtree(root, ignore_errors=True)
    os.makedirs(root)
    pid = os.fork()
    if pid == 0:
        try:
            _real_child(work, root, k)
        finally:
            os._exit(3)
    _, status = os.waitpid(pid, 0)
    code = os.waitstatus_to_exitcode(status)
    files, dirs = {}, set()
    for dp, dns, fns in os.walk(root):
        for dn in dns:
            dirs.add(os.path.relpath(os.path.join(dp, dn), root))
        for fn in fns:
            full = os.path.join(dp, fn)
            with open(full, "rb") as f:
                files[os.path.relpath(full, root)] = f.read()
    shutil.rmtree(root, ignore_errors=True)
    return _normalise(files, dirs), code


def run():
    rows = []
    for work in WORKLOADS:
        _, K, kinds = _sim_run(work, None)
        agree = order_only = 0
        first = None
        for k in range(K + 1):
            sim, _, _ = _sim_run(work, k)
            real, code = _real_run(work, k)
            ok = sim == real and code in (0, 17)
            if not ok and code in (0, 17) and 0 < k < len(kinds) and {kinds[k - 1], kinds[k]} <= {"remove", "rmdir"} and len(sim[0]) == len(real[0]) and len(sim[1]) == len(real[1]):
                ok = True  # inside rmtree: which sibling goes first is the directory's listing order
                order_only += 1
            agree += ok
            if not ok and first is None:
                first = {"crash_before_op": k, "child_exit": code, "sim_only": [x for x in sim[0] if x not in real[0]][:3].__repr__()[:300], "real_only": [x for x in real[0] if x not in sim[0]][:3].__repr__()[:300],
                         "sim_dirs": sim[1], "real_dirs": real[1]}
        rows.append({"workload": work.__name__, "crash_points": K + 1, "agree": agree, "agree_up_to_removal_order": order_only, "op_kinds": kinds, "first_difference": first})
        print(f"fs-fidelity workload {work.__name__}: {agree}/{K + 1} crash points leave the same tree in SimFS and on tmpfs")
    return rows
