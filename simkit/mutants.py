"""Textual mutants for the sensitivity self-test (never written to /repo)."""
from .selftest import Mutant

T = "pydrobert.torch.training"

MUTANTS = [
    # ---- C16 -------------------------------------------------------------------------
    Mutant("c16-history-before-checkpoint", "C16", T, [
        ("                    if save_info_first:\n                        self.save_info_to_hist(info)\n                    try:", "                    if True:\n                        self.save_info_to_hist(info)\n                    try:"),
        ("                    if not save_info_first:\n                        self.save_info_to_hist(info)\n\n                    clean_up", "                    if False:\n                        self.save_info_to_hist(info)\n\n                    clean_up"),
    ]),
    Mutant("c16-no-temp-file", "C16", T, [
        ('with tempfile.NamedTemporaryFile("wb", dir=dir_, delete=False) as f:', 'with open(path, "wb") as f:'),
        ("replaces.append((f.name, path))", "pass"),
    ]),
    Mutant("c16-no-refusal", "C16", T, [
        ("if model_pth == best_model_pth:", "if False:"),
        ("elif optim_pth == best_optim_pth:", "elif False:"),
    ]),
    Mutant("c16-cleanup-forgets-old-best", "C16", T, [
        ("                    if last_best != cur_best:\n                        clean_up |=", "                    if False:\n                        clean_up |="),
    ]),
    Mutant("c16-revert-D1-header", "C16", T, [
        ("            ) or not os.path.getsize(self.state_csv_path)\n", "            )\n"),
    ]),
    Mutant("c16-revert-D11-orphan", "C16", T, [
        ("                    pth in recorded and os.path.exists(pth)\n", "                    os.path.exists(pth)\n"),
    ]),
    Mutant("c16-cleanup-before-history", "C16", T, [
        ("                    if not save_info_first:\n                        self.save_info_to_hist(info)\n\n                    clean_up = {last_model_pth, last_optim_pth}",
         "                    clean_up = {last_model_pth, last_optim_pth}"),
        ("                    self._clean_up_files(*tuple(clean_up))\n", "                    self._clean_up_files(*tuple(clean_up))\n                    if not save_info_first:\n                        self.save_info_to_hist(info)\n"),
    ]),
    # ---- C15 -------------------------------------------------------------------------
    Mutant("c15-rlr-reference-is-previous-epoch", "C15", T, [
        ('rlr_epoch = epoch - self.params.reduce_lr_patience + info["rlr_patience_cd"] - 1', "rlr_epoch = epoch - 1"),
    ]),
    Mutant("c15-es-threshold-inclusive", "C15", T, [
        ('max(es_info["val_met"] - val_met, 0) < self.params.early_stopping_threshold', 'max(es_info["val_met"] - val_met, 0) <= self.params.early_stopping_threshold'),
    ]),
    Mutant("c15-no-cooldown", "C15", T, [
        ('info["rlr_resume_cd"] = self.params.reduce_lr_cooldown', 'info["rlr_resume_cd"] = 0'),
    ]),
    Mutant("c15-lr-not-written-to-optimizer", "C15", T, [
        ('                        param_group["lr"] = new_lr\n', '                        pass\n'),
    ]),
    Mutant("c15-burnin-off-by-one", "C15", T, [
        ('"es_resume_cd": self.params.early_stopping_burnin,', '"es_resume_cd": max(self.params.early_stopping_burnin - 1, 0),'),
    ]),
    Mutant("c15-reread-swaps-countdowns", "C15", T, [
        ('"rlr_resume_cd": int(row["rlr_resume_cd"]),', '"rlr_resume_cd": int(row["es_resume_cd"]),'),
    ]),
    Mutant("c15-user-entry-type-dropped", "C15", T, [
        ("self.cache_hist[epoch][name] = type_(row[name])", "self.cache_hist[epoch][name] = row[name]"),
    ]),
    Mutant("c15-best-epoch-prefers-later-tie", "C15", T, [
        ("            if cur < min_met:\n", "            if cur <= min_met:\n"),
    ]),
]
