"""Command pipelines for C17 / C10 (see props/c17.py)."""
import copy
import math
import os
import random

import numpy as np
import torch

from simkit.core import HarnessError
from .cmdsim import run_command, snapshot, describe

VOCAB = [("a", 0), ("b", 1), ("c", 2), ("d", 5), ("e", 9), ("sil", 10), ("<unk>", 11), ("x-1", 12)]
TOK2ID = dict(VOCAB)
ID2TOK = {v: k for k, v in VOCAB}
WORDS = ["a", "b", "c", "d", "e", "x-1"]
ID_POOL = ["u1", "u10", "u1.a", "u2", "spk-3", "a", "ab", "abc", "Z9", "u1.a.b", "m_4", "k.0", "a+b", "x=y", "100%", "\u00dc-1", "u,1", "0012", "sw02001-A", "sw02001-B", "~t", "q#7"]


def gen_naming(rng):
    return {"prefix": rng.choice(["", "", "p_", "x."]), "suffix": rng.choice([".pt", ".pt", ".t", "_s.pt"])}


def gen_ids(rng, n):
    return rng.sample(ID_POOL, n)


def write_vocab(path, swap):
    """swap=False: '<token> <id>' lines; swap=True: '<id> <token>' lines."""
    with open(path, "w") as f:
        for tok, i in VOCAB:
            f.write(f"{i} {tok}\n" if swap else f"{tok} {i}\n")


def status_of(outcomes):
    return [o.status() for o in outcomes]


def fname(sc, utt):
    return sc["prefix"] + utt + sc["suffix"]


def naming_args(sc):
    a = []
    if sc["prefix"]:
        a += ["--file-prefix", sc["prefix"]]
    if sc["suffix"] != ".pt":
        a += ["--file-suffix", sc["suffix"]]
    return a


def load(path):
    return torch.load(path, weights_only=False)


def drop_utts(sc, key="utts"):
    for i in range(len(sc[key])):
        c = copy.deepcopy(sc)
        del c[key][i]
        yield c


class Pipeline:
    WEIGHT = 1.0
    POOLED = True

    @staticmethod
    def size(sc):
        return len(sc["utts"])

    @staticmethod
    def shrink(sc):
        yield from drop_utts(sc)


# =======================================================================================
# 4. ali dir -> token dir -> ali dir
# =======================================================================================
class Ali(Pipeline):
    @staticmethod
    def gen(rng, sc):
        n = rng.choice([0, 1, 2, 3, 4, 6])
        utts = []
        for uid in gen_ids(rng, n):
            T = rng.randrange(1, 9)
            ali, cur = [], rng.randrange(4)
            for _ in range(T):
                if rng.random() < 0.45:
                    cur = rng.randrange(4)
                ali.append(cur)
            utts.append({"id": uid, "ali": ali})
        return {"utts": utts, "feat_dir": rng.random() < 0.4, "stray": rng.random() < 0.5}

    @staticmethod
    def run(sc, s, cfg, res):
        os.makedirs(s.p("ali"))
        os.makedirs(s.p("feat"))
        for u in sc["utts"]:
            torch.save(torch.tensor(u["ali"], dtype=torch.long), s.p("ali", fname(sc, u["id"])))
            torch.save(torch.zeros(len(u["ali"]), 2), s.p("feat", fname(sc, u["id"])))
        if sc["stray"]:
            with open(s.p("ali", "notes.txt"), "w") as f:
                f.write("not a tensor\n")
        o1 = run_command("torch_ali_data_dir_to_torch_token_data_dir", [s.p("ali"), s.p("ref")] + naming_args(sc) + cfg.args())
        a2 = [s.p("ref"), s.p("ali2")] + naming_args(sc) + cfg.args()
        if sc["feat_dir"]:
            a2 += ["--feat-dir", s.p("feat")]
        o2 = run_command("torch_token_data_dir_to_torch_ali_data_dir", a2)
        return {"status": status_of([o1, o2]), "snap": {"ref": snapshot(s.p("ref")), "ali2": snapshot(s.p("ali2"))}, "outcomes": [o1, o2]}

    @staticmethod
    def oracle(sc, s, out, res):
        for k, o in enumerate(out["outcomes"]):
            if o.exc is not None or o.rc:
                res.violate("ali.command-failed", f"ali<->token conversion command {k + 1} failed on a well-formed directory (prefix {sc['prefix']!r}, suffix {sc['suffix']!r}, "
                            f"stray file {sc['stray']}): {type(o.exc).__name__ if o.exc else o.rc}: {o.exc}", pipeline="ali", cmd=k + 1)
                return
        want = {fname(sc, u["id"]) for u in sc["utts"]}
        for d in ("ref", "ali2"):
            if set(out["snap"][d]) != want:
                res.violate("ali.file-set", f"{d}/ holds {sorted(out['snap'][d])}, expected one file per utterance {sorted(want)} (prefix {sc['prefix']!r}, suffix {sc['suffix']!r})",
                            pipeline="ali", what=d)
                return
        for u in sc["utts"]:
            fn = fname(sc, u["id"])
            got = out["snap"]["ali2"][fn]
            if got != ("obj", ("tensor", "torch.int64", (len(u["ali"]),), u["ali"])):
                res.violate("ali.round-trip", f"alignment of {u['id']} after ali -> token -> ali differs: {got[1][3] if got[0] == 'obj' else got} vs {u['ali']}", pipeline="ali")
                return
            runs = []
            for t, a in enumerate(u["ali"]):
                if runs and runs[-1][0] == a:
                    runs[-1][2] = t + 1
                else:
                    runs.append([a, t, t + 1])
            if out["snap"]["ref"][fn] != ("obj", ("tensor", "torch.int64", (len(runs), 3), runs)):
                res.violate("ali.segments", f"token segments of {u['id']} are not the maximal runs of its alignment", pipeline="ali")
                return


# =======================================================================================
# 1. trn -> token dir -> trn
# =======================================================================================
def gen_trn_elems(rng, depth, n):
    out = []
    for _ in range(n):
        if depth < 2 and rng.random() < 0.2:
            nb = rng.randrange(2, 4)
            out.append({"alt": [gen_trn_elems(rng, depth + 1, rng.randrange(1, 3)) for _ in range(nb)]})
        else:
            out.append(rng.choice(WORDS))
    return out


def render_trn(elems):
    parts = []
    for e in elems:
        if isinstance(e, str):
            parts.append(e)
        else:
            parts.append("{ " + " / ".join(render_trn(b) for b in e["alt"]) + " }")
    return " ".join(parts)


def flatten_first(elems):
    out = []
    for e in elems:
        if isinstance(e, str):
            out.append(e)
        else:
            out += flatten_first(e["alt"][0])
    return out


def has_alt(elems):
    return any(not isinstance(e, str) for e in elems)


class Trn(Pipeline):
    WEIGHT = 1.5

    @staticmethod
    def gen(rng, sc):
        n = rng.choice([0, 1, 2, 3, 4, 6, 8, 8, 20])
        alts = rng.random() < 0.5
        utts = []
        for uid in gen_ids(rng, n):
            elems = gen_trn_elems(rng, 0 if alts else 5, rng.randrange(0, 6))
            utts.append({"id": uid, "elems": elems})
        unk = rng.random() < 0.4
        if unk:
            for u in utts:
                if u["elems"] and rng.random() < 0.5:
                    u["elems"][rng.randrange(len(u["elems"]))] = "oov" + str(rng.randrange(3))
        return {
            "utts": utts, "unk": unk, "sizing": rng.choice(["none", "none", "skip", "feat"]), "swap1": rng.random() < 0.4, "swap2": rng.random() < 0.4,
            "blank_lines": rng.random() < 0.3, "alt_handler_first": True if any(has_alt(u["elems"]) for u in utts) else rng.random() < 0.5,
        }

    @staticmethod
    def run(sc, s, cfg, res):
        with open(s.p("in.trn"), "w") as f:
            for u in sc["utts"]:
                body = render_trn(u["elems"])
                f.write((body + " " if body else "") + f"({u['id']})\n")
                if sc["blank_lines"]:
                    f.write("\n")
        write_vocab(s.p("t2i"), sc["swap1"])
        write_vocab(s.p("i2t"), not sc["swap2"])
        a1 = [s.p("in.trn"), s.p("t2i"), s.p("tok")] + naming_args(sc) + cfg.args()
        if sc["alt_handler_first"]:
            a1 += ["--alt-handler", "first"]
        if sc["swap1"]:
            a1.append("--swap")
        if sc["unk"]:
            a1 += ["--unk-symbol", "<unk>"]
        if sc["sizing"] == "skip":
            a1.append("--skip-frame-times")
        elif sc["sizing"] == "feat":
            a1.append("--feat-sizing")
        o1 = run_command("trn_to_torch_token_data_dir", a1)
        a2 = [s.p("tok"), s.p("i2t"), s.p("out.trn")] + naming_args(sc) + ["--num-workers", cfg.workers]
        if sc["swap2"]:
            a2.append("--swap")
        o2 = run_command("torch_token_data_dir_to_trn", a2)
        snap = {"tok": snapshot(s.p("tok"))}
        printed = open(s.p("out.trn")).read() if os.path.exists(s.p("out.trn")) else None
        return {"status": status_of([o1, o2]), "snap": snap, "printed": printed, "outcomes": [o1, o2]}

    @staticmethod
    def oracle(sc, s, out, res):
        for k, o in enumerate(out["outcomes"]):
            if o.exc is not None or o.rc:
                res.violate("trn.command-failed", f"trn pipeline command {k + 1} failed: {type(o.exc).__name__ if o.exc else o.rc}: {o.exc}", pipeline="trn", cmd=k + 1)
                return
        want = {}
        for u in sc["utts"]:
            toks = flatten_first(u["elems"])
            want[u["id"]] = [t if t in TOK2ID else "<unk>" for t in toks]
        files = out["snap"]["tok"]
        if set(files) != {fname(sc, u) for u in want}:
            res.violate("trn.file-set", f"token directory holds {sorted(files)}, expected one file per utterance", pipeline="trn")
            return
        for u, toks in want.items():
            d = files[fname(sc, u)][1]
            ids = [TOK2ID[t] for t in toks]
            R = len(ids)
            exp = {"none": ("tensor", "torch.int64", (R, 3), [[i, -1, -1] for i in ids]), "skip": ("tensor", "torch.int64", (R,), ids),
                   "feat": ("tensor", "torch.int64", (R, 1), [[i] for i in ids])}[sc["sizing"]]
            if d != exp:
                res.violate("trn.tensor", f"token tensor of {u} is {d}, expected {exp}", pipeline="trn")
                return
        lines = [l for l in (out["printed"] or "").splitlines() if l.strip()]
        got = {}
        order = []
        for l in lines:
            body, _, rest = l.rpartition("(")
            uid = rest.rstrip()[:-1]
            got[uid] = body.split()
            order.append(uid)
        if got != want:
            bad = next((u for u in want if got.get(u) != want[u]), None)
            res.violate("trn.round-trip", f"trn -> token dir -> trn: utterance {bad}: got {got.get(bad)}, original (first alternates, oov -> <unk>) {want.get(bad)}; "
                        f"utterances {sorted(got)} vs {sorted(want)}", pipeline="trn")
            return
        if order != sorted(order):
            res.violate("trn.order", f"output trn is not ordered by utterance id: {order}", pipeline="trn")


# =======================================================================================
# 2. ctm -> token dir -> ctm
# =======================================================================================
class Ctm(Pipeline):
    WEIGHT = 1.5

    @staticmethod
    def gen(rng, sc):
        n = rng.choice([0, 1, 2, 3, 4, 6, 6, 18])
        mapping = rng.choice(["none", "wc2utt", "utt2wc"])
        fs = rng.choice([10.0, 10.0, 20.0, 12.5, 25.0, 16.0, 15.0, 30.0])
        utts = []
        ids = gen_ids(rng, n)
        for k, uid in enumerate(ids):
            toks = []
            t = rng.randrange(0, 300)
            for _ in range(rng.randrange(1, 5)):
                dur = rng.choice([0, 10, 30, 45, 120, 500])
                toks.append([rng.choice(WORDS), t, dur])
                t += dur + rng.choice([0, 0, 15, 200])
                if rng.random() < 0.1:
                    t += 9000  # crosses the 10 s digit boundary
            wfn, chan = (uid, "A") if mapping == "none" else (f"w{k // 2}", "AB"[k % 2])
            utts.append({"id": uid, "wfn": wfn, "chan": chan, "toks": toks})
        return {"utts": utts, "mapping": mapping, "fs": fs, "chan_flag": rng.choice([None, "B", "1"]), "shuffle_lines": rng.randrange(1 << 16), "swap1": rng.random() < 0.3,
                "comments": rng.random() < 0.4, "back_mapping": rng.choice(["same", "other"]),
                # flags added later (drawn last so that the older fields keep their derivation)
                "swap2": rng.random() < 0.3, "unk": rng.random() < 0.25, "sizing": rng.choice(["times", "times", "times", "times", "skip", "feat"])}

    @staticmethod
    def run(sc, s, cfg, res):
        lines = []
        for u in sc["utts"]:
            for j, (tok, st, du) in enumerate(u["toks"]):
                if sc.get("unk") and (st + j) % 3 == 0:
                    tok = "zz"  # out of vocabulary: becomes --unk-symbol
                lines.append(f"{u['wfn']} {u['chan']} {st / 1000:.3f} {du / 1000:.3f} {tok}" + ("  ;; c" if sc["comments"] else ""))
        random.Random(sc["shuffle_lines"]).shuffle(lines)
        with open(s.p("in.ctm"), "w") as f:
            if sc["comments"]:
                f.write(";; header comment\n\n")
            f.write("\n".join(lines) + ("\n" if lines else ""))
        write_vocab(s.p("t2i"), sc["swap1"])
        write_vocab(s.p("i2t"), not sc.get("swap2"))
        with open(s.p("wc2utt"), "w") as f:
            for u in sc["utts"]:
                f.write(f"{u['wfn']} {u['chan']} {u['id']}\n")
        with open(s.p("utt2wc"), "w") as f:
            for u in sc["utts"]:
                f.write(f"{u['id']} {u['wfn']} {u['chan']}\n")
        sizing = sc.get("sizing", "times")
        a1 = [s.p("in.ctm"), s.p("t2i"), s.p("tok")] + naming_args(sc) + cfg.args() + {"times": ["--frame-shift-ms", sc["fs"]], "skip": ["--skip-frame-times"], "feat": ["--feat-sizing"]}[sizing]
        if sc["swap1"]:
            a1.append("--swap")
        if sc.get("unk"):
            a1 += ["--unk-symbol", "<unk>"]
        if sc["mapping"] != "none":
            a1 += ["--" + sc["mapping"], s.p(sc["mapping"])]
        o1 = run_command("ctm_to_torch_token_data_dir", a1)
        if sizing != "times":
            # tokens only: there is no way back to a ctm; the stored tensors are judged instead
            stored = {}
            if os.path.isdir(s.p("tok")):
                for fn in os.listdir(s.p("tok")):
                    try:
                        stored[fn] = torch.load(s.p("tok", fn))
                    except Exception as e:  # noqa
                        stored[fn] = e
            return {"status": status_of([o1]), "snap": {"tok": snapshot(s.p("tok"))}, "printed": None, "outcomes": [o1], "stored": stored}
        a2 = [s.p("tok"), s.p("i2t"), s.p("out.ctm")] + naming_args(sc) + ["--frame-shift-ms", sc["fs"]]
        if sc.get("swap2"):
            a2.append("--swap")
        if sc["mapping"] != "none":
            m = sc["mapping"] if sc["back_mapping"] == "same" else ("utt2wc" if sc["mapping"] == "wc2utt" else "wc2utt")
            a2 += ["--" + m, s.p(m)]
        elif sc["chan_flag"]:
            a2 += ["--channel", sc["chan_flag"]]
        o2 = run_command("torch_token_data_dir_to_ctm", a2)
        printed = open(s.p("out.ctm")).read() if os.path.exists(s.p("out.ctm")) else None
        return {"status": status_of([o1, o2]), "snap": {"tok": snapshot(s.p("tok"))}, "printed": printed, "outcomes": [o1, o2]}

    @staticmethod
    def oracle(sc, s, out, res):
        for k, o in enumerate(out["outcomes"]):
            if o.exc is not None or o.rc:
                res.violate("ctm.command-failed", f"ctm pipeline command {k + 1} failed: {type(o.exc).__name__ if o.exc else o.rc}: {o.exc}", pipeline="ctm", cmd=k + 1)
                return
        fs = sc["fs"] / 1000.0

        def seen(u):
            return [("<unk>" if sc.get("unk") and (st + j) % 3 == 0 else tok, st, du) for j, (tok, st, du) in enumerate(u["toks"])]

        if sc.get("sizing", "times") != "times":
            # --skip-frame-times: (R,) ids; --feat-sizing: (R, 1) ids; in order of start time
            want_files = {fname(sc, u["id"]) for u in sc["utts"]}
            if set(out["stored"]) != want_files:
                res.violate("ctm.file-set", f"ctm -> token dir ({sc['sizing']}): files {sorted(out['stored'])}, expected {sorted(want_files)}", pipeline="ctm")
                return
            for u in sc["utts"]:
                t = out["stored"][fname(sc, u["id"])]
                toks = sorted(seen(u), key=lambda x: x[1])
                ids = [TOK2ID[x[0]] for x in toks]
                shape = (len(ids),) if sc["sizing"] == "skip" else (len(ids), 1)
                ties = len({x[1] for x in toks}) < len(toks)
                ok = torch.is_tensor(t) and tuple(t.shape) == shape and t.dtype == torch.long and ((sorted(t.flatten().tolist()) == sorted(ids)) if ties else (t.flatten().tolist() == ids))
                if not ok:
                    res.violate("ctm.tokens-only", f"ctm -> token dir with {'--skip-frame-times' if sc['sizing'] == 'skip' else '--feat-sizing'}, utterance {u['id']}: stored "
                                f"{t.tolist() if torch.is_tensor(t) else t!r}, expected ids {ids} in a tensor of shape {shape}", pipeline="ctm", what=sc["sizing"])
                    return
            return
        want = {}
        for u in sc["utts"]:
            chan = u["chan"] if sc["mapping"] != "none" else (sc["chan_flag"] or "A")
            want[(u["wfn"], chan)] = sorted([(st / 1000.0, (st + du) / 1000.0, tok) for tok, st, du in seen(u)])
        got = {}
        rows = []
        for l in (out["printed"] or "").splitlines():
            if not l.strip():
                continue
            wfn, chan, st, du, tok = l.split()
            got.setdefault((wfn, chan), []).append((float(st), float(st) + float(du), tok))
            rows.append((wfn, chan, float(st)))
        if set(got) != set(want):
            res.violate("ctm.utterances", f"ctm round trip: recordings {sorted(got)} vs original {sorted(want)}", pipeline="ctm")
            return
        if rows != sorted(rows):
            res.violate("ctm.order", "output ctm is not sorted by (recording, channel, start)", pipeline="ctm")
            return
        tol = fs + 1e-6
        for key, w in want.items():
            g = sorted(got[key])
            ok = len(g) == len(w)
            if ok:
                # tokens with (nearly) equal starts may be reordered: match greedily within tolerance
                used = [False] * len(g)
                for (ws, we, wt) in w:
                    hit = next((i for i, (gs, ge, gt) in enumerate(g) if not used[i] and gt == wt and abs(gs - ws) <= tol and abs(ge - we) <= tol), None)
                    if hit is None:
                        ok = False
                        break
                    used[hit] = True
            if not ok:
                res.violate("ctm.round-trip", f"ctm -> token dir -> ctm, recording {key}: got {g}, original {w} (tolerance one frame shift = {fs}s)", pipeline="ctm")
                return


# =======================================================================================
# 3. TextGrid dir -> token dir -> TextGrid dir
# =======================================================================================
def render_textgrid(tiers, xmin, xmax, prec):
    def f(x):
        return f"{x:0.{prec}f}"

    out = ['File type = "ooTextFile"', 'Object class = "TextGrid"', f(xmin), f(xmax), "<exists>", str(len(tiers))]
    for t in tiers:
        out += [f'"{"TextTier" if t["point"] else "IntervalTier"}"', f'"{t["name"]}"', f(t["xmin"]), f(t["xmax"]), str(len(t["items"]))]
        for tok, a, b in t["items"]:
            out += [f(a)] + ([] if t["point"] else [f(b)]) + [f'"{tok}"']
    return "\n".join(out) + "\n"


def render_long_textgrid(tiers, xmin, xmax, prec):
    """Praat's default ('long') text format."""

    def f(x):
        return f"{x:0.{prec}f}"

    out = ['File type = "ooTextFile"', 'Object class = "TextGrid"', "", f"xmin = {f(xmin)}", f"xmax = {f(xmax)}", "tiers? <exists>", f"size = {len(tiers)}", "item []:"]
    for k, t in enumerate(tiers):
        kind = "points" if t["point"] else "intervals"
        out += [f"    item [{k + 1}]:", f'        class = "{"TextTier" if t["point"] else "IntervalTier"}"', f'        name = "{t["name"]}"', f"        xmin = {f(t['xmin'])}",
                f"        xmax = {f(t['xmax'])}", f"        {kind}: size = {len(t['items'])}"]
        for j, (tok, a, b) in enumerate(t["items"]):
            out.append(f"        {kind} [{j + 1}]:")
            if t["point"]:
                out += [f"            number = {f(a)}", f'            mark = "{tok}"']
            else:
                out += [f"            xmin = {f(a)}", f"            xmax = {f(b)}", f'            text = "{tok}"']
    return "\n".join(out) + "\n"


def parse_short_textgrid(text):
    lines = text.splitlines()
    n_tiers = int(lines[5])
    i = 6
    tiers = []
    for _ in range(n_tiers):
        cls, name = lines[i].strip('"'), lines[i + 1].strip('"')
        xmin, xmax, n = float(lines[i + 2]), float(lines[i + 3]), int(lines[i + 4])
        i += 5
        items = []
        for _ in range(n):
            if cls == "TextTier":
                items.append((lines[i + 1].strip('"'), float(lines[i]), float(lines[i])))
                i += 2
            else:
                items.append((lines[i + 2].strip('"'), float(lines[i]), float(lines[i + 1])))
                i += 3
        tiers.append({"point": cls == "TextTier", "name": name, "xmin": xmin, "xmax": xmax, "items": items, "raw_times": True})
    return float(lines[2]), float(lines[3]), tiers


class Tg(Pipeline):
    WEIGHT = 1.5

    @staticmethod
    def gen(rng, sc):
        n = rng.choice([0, 1, 2, 3, 4, 4, 14])
        prec = rng.choice([1, 2, 3, 3])
        unit = 10 ** (3 - prec)  # ms per print unit
        utts = []
        fill = rng.random() < 0.5
        for uid in gen_ids(rng, n):
            point = rng.random() < 0.3 and not fill  # gap filling is defined for interval tiers
            t = rng.choice([0, 0, 50, 400]) // unit * unit
            xmin = 0
            items = []
            for _ in range(rng.randrange(1, 5)):
                if rng.random() < 0.3:
                    t += rng.choice([100, 300, 9700]) // unit * unit or unit  # a gap (or the 10 s boundary)
                dur = 0 if point else max(unit, rng.choice([100, 200, 350, 1200]) // unit * unit)
                items.append([rng.choice(WORDS), t, t + dur])
                t += dur if not point else max(unit, 100 // unit * unit)
            xmax = t + rng.choice([0, 0, 500]) // unit * unit
            other = {"point": False, "name": "other", "xmin": 0, "xmax": xmax, "items": [["b", 0, max(xmax, unit)]]}
            utts.append({"id": uid, "tier": {"point": point, "name": "transcript", "xmin": xmin, "xmax": xmax, "items": items}, "other": other, "first": rng.random() < 0.5})
        fmt = rng.choice(["long", "long", "short"])
        return {"utts": utts, "prec": prec, "fs": rng.choice([10.0, 20.0, 25.0, 16.0, 15.0]), "fill": fill, "tier_by": rng.choice(["default", "name", "idx"] if fmt == "long" else ["default", "name"]),
                "tg_format": fmt,
                "tg_suffix": rng.choice([".TextGrid", ".tg"]), "out_prec": rng.choice([None, 2, 4]), "len_from": rng.choice(["infer", "feat"]), "out_tier": rng.choice([None, "words"]),
                # flags added later (drawn last so that the older fields keep their derivation)
                "swap1": rng.random() < 0.3, "swap2": rng.random() < 0.3, "unk": rng.random() < 0.25, "sizing": rng.choice(["times", "times", "times", "times", "skip", "feat"]),
                "quiet": rng.random() < 0.3, "force": rng.random() < 0.3}

    @staticmethod
    def run(sc, s, cfg, res):
        os.makedirs(s.p("tg"))
        os.makedirs(s.p("feat"))
        for u in sc["utts"]:
            main = u["tier"]
            if sc.get("unk"):
                # out-of-vocabulary labels: they become --unk-symbol
                main = dict(main, items=[["zz" if (a + j) % 3 == 0 else tok, a, b] for j, (tok, a, b) in enumerate(main["items"])])
            tiers = [main, u["other"]] if (u["first"] or sc["tier_by"] != "name") else [u["other"], main]
            if sc["tier_by"] == "idx":
                tiers = [u["other"], main]

            def sec(t):
                return dict(t, xmin=t["xmin"] / 1000, xmax=t["xmax"] / 1000, items=[(a, b / 1000, c / 1000) for a, b, c in t["items"]])

            if sc["tg_format"] == "short":
                # the short format is what write_textgrid emits: one tier
                txt = render_textgrid([sec(main)], 0.0, u["tier"]["xmax"] / 1000, sc["prec"])
            else:
                txt = render_long_textgrid([sec(t) for t in tiers], 0.0, max(t["xmax"] for t in tiers) / 1000, sc["prec"])
            with open(s.p("tg", sc["prefix"] + u["id"] + sc["tg_suffix"]), "w") as f:
                f.write(txt)
            T = int(math.ceil(u["tier"]["xmax"] / sc["fs"])) + 1
            torch.save(torch.zeros(T, 2), s.p("feat", fname(sc, u["id"])))
        with open(s.p("tg", "README.md"), "w") as f:
            f.write("stray\n")
        write_vocab(s.p("t2i"), bool(sc.get("swap1")))
        write_vocab(s.p("i2t"), not sc.get("swap2"))
        sizing = sc.get("sizing", "times")
        a1 = [s.p("tg"), s.p("t2i"), s.p("tok")] + naming_args(sc) + cfg.args() + {"times": ["--frame-shift-ms", sc["fs"]], "skip": ["--skip-frame-times"], "feat": ["--feat-sizing"]}[sizing]
        if sc.get("swap1"):
            a1.append("--swap")
        if sc.get("unk"):
            a1 += ["--unk-symbol", "<unk>"]
        if sc["tg_suffix"] != ".TextGrid":
            a1 += ["--textgrid-suffix", sc["tg_suffix"]]
        if sc["tier_by"] == "name":
            a1 += ["--tier-name", "transcript"]
        elif sc["tier_by"] == "idx":
            a1 += ["--tier-idx", "1"]
        if sc["fill"]:
            a1 += ["--fill-symbol", "sil"]
        o1 = run_command("textgrids_to_torch_token_data_dir", a1)
        if sizing != "times":
            stored = {}
            if os.path.isdir(s.p("tok")):
                for fn in os.listdir(s.p("tok")):
                    try:
                        stored[fn] = torch.load(s.p("tok", fn))
                    except Exception as e:  # noqa
                        stored[fn] = e
            return {"status": status_of([o1]), "snap": {"tok": snapshot(s.p("tok"))}, "outcomes": [o1], "stored": stored}
        a2 = [s.p("tok"), s.p("i2t"), s.p("tg2")] + naming_args(sc) + cfg.args() + ["--frame-shift-ms", sc["fs"]]
        if sc.get("swap2"):
            a2.append("--swap")
        if sc.get("quiet"):
            a2.append("--quiet")
        if sc.get("force") and sc["utts"]:
            # the method the documentation says is chosen anyway: 1 for intervals of non-zero length, 2 for points
            kinds = {u["tier"]["point"] and not sc["fill"] for u in sc["utts"]}
            if len(kinds) == 1:
                a2 += ["--force-method", 2 if kinds.pop() else 1]
        a2 += ["--infer"] if sc["len_from"] == "infer" else ["--feat-dir", s.p("feat")]
        if sc["tg_suffix"] != ".TextGrid":
            a2 += ["--textgrid-suffix", sc["tg_suffix"]]
        if sc["out_prec"] is not None:
            a2 += ["--precision", sc["out_prec"]]
        if sc["out_tier"]:
            a2 += ["--tier-name", sc["out_tier"]]
        o2 = run_command("torch_token_data_dir_to_textgrids", a2)
        return {"status": status_of([o1, o2]), "snap": {"tok": snapshot(s.p("tok")), "tg2": snapshot(s.p("tg2"))}, "outcomes": [o1, o2]}

    @staticmethod
    def oracle(sc, s, out, res):
        for k, o in enumerate(out["outcomes"]):
            if o.exc is not None or o.rc:
                res.violate("tg.command-failed", f"TextGrid pipeline command {k + 1} failed: {type(o.exc).__name__ if o.exc else o.rc}: {o.exc}", pipeline="tg", cmd=k + 1)
                return
        fs = sc["fs"] / 1000.0

        def label(u, j, tok, a):
            return "<unk>" if sc.get("unk") and (a + j) % 3 == 0 else tok

        if sc.get("sizing", "times") != "times":
            want_tok = {fname(sc, u["id"]) for u in sc["utts"]}
            if set(out["stored"]) != want_tok:
                res.violate("tg.file-set", f"TextGrid -> token dir ({sc['sizing']}): files {sorted(out['stored'])}, expected {sorted(want_tok)}", pipeline="tg")
                return
            for u in sc["utts"]:
                items = sorted([(label(u, j, tok, a), a, b) for j, (tok, a, b) in enumerate(u["tier"]["items"])], key=lambda x: x[1])
                toks, t0 = [], u["tier"]["xmin"]
                for tok, a, b in items:
                    if sc["fill"] and t0 < a:
                        toks.append("sil")
                    toks.append(tok)
                    t0 = b
                if sc["fill"] and t0 < u["tier"]["xmax"]:
                    toks.append("sil")
                ids = [TOK2ID[x] for x in toks]
                t = out["stored"][fname(sc, u["id"])]
                shape = (len(ids),) if sc["sizing"] == "skip" else (len(ids), 1)
                if not (torch.is_tensor(t) and tuple(t.shape) == shape and t.dtype == torch.long and t.flatten().tolist() == ids):
                    res.violate("tg.tokens-only", f"TextGrid -> token dir with {'--skip-frame-times' if sc['sizing'] == 'skip' else '--feat-sizing'}, utterance {u['id']}: stored "
                                f"{t.tolist() if torch.is_tensor(t) else t!r}, expected ids {ids} in a tensor of shape {shape}", pipeline="tg", what=sc["sizing"])
                    return
            return
        want_files = {sc["prefix"] + u["id"] + sc["tg_suffix"] for u in sc["utts"]}
        if set(out["snap"]["tg2"]) != want_files or set(out["snap"]["tok"]) != {fname(sc, u["id"]) for u in sc["utts"]}:
            res.violate("tg.file-set", f"TextGrid round trip produced files {sorted(out['snap']['tg2'])} / {sorted(out['snap']['tok'])}, expected one per utterance", pipeline="tg")
            return
        for u in sc["utts"]:
            tier = u["tier"]
            items = [(label(u, j, tok, a), a / 1000.0, b / 1000.0) for j, (tok, a, b) in enumerate(tier["items"])]
            if sc["fill"]:
                filled, t = [], tier["xmin"] / 1000.0
                for tok, a, b in sorted(items, key=lambda x: x[1]):
                    if t < a - 1e-9:
                        filled.append(("sil", t, a))
                    filled.append((tok, a, b))
                    t = b
                if t < tier["xmax"] / 1000.0 - 1e-9:
                    filled.append(("sil", t, tier["xmax"] / 1000.0))
                items = filled
            kind, body = out["snap"]["tg2"][sc["prefix"] + u["id"] + sc["tg_suffix"]]
            try:
                _, _, tiers = parse_short_textgrid(body.decode())
            except Exception as e:  # noqa
                res.violate("tg.unparsable", f"output TextGrid of {u['id']} cannot be parsed: {e}", pipeline="tg")
                return
            got = tiers[0]
            if got["name"] != (sc["out_tier"] or "transcript"):
                res.violate("tg.tier-name", f"output tier is named {got['name']!r}", pipeline="tg", what="tier-name")
                return
            oprec = sc["out_prec"] if sc["out_prec"] is not None else 3
            tol = fs + 0.5 * 10 ** (-oprec) + 1e-9
            g = got["items"]
            ok = len(g) == len(items) and all(gt == wt and abs(ga - wa) <= tol and abs(gb - wb) <= tol for (gt, ga, gb), (wt, wa, wb) in zip(g, items))
            if not ok:
                res.violate("tg.round-trip", f"TextGrid -> token dir -> TextGrid, utterance {u['id']}: got {g}, original{' (gaps filled)' if sc['fill'] else ''} {items} "
                            f"(tolerance {tol:.4f}s)", pipeline="tg")
                return
            # print precision is honoured: every time has exactly oprec decimals
            txt = body.decode().splitlines()
            nums = [l for l in txt[2:] if l and l[0].isdigit() and "." in l]
            if any(len(l.split(".")[1]) != oprec for l in nums):
                res.violate("tg.precision", f"--precision {oprec} requested but the TextGrid of {u['id']} prints times like {nums[:2]}", pipeline="tg", what="precision")
                return


# =======================================================================================
# 5. error rates
# =======================================================================================
def edit_stats(ref, hyp, ins, dele, sub):
    """(min cost, fewest edits, most edits) over minimum-cost alignments."""
    R, H = len(ref), len(hyp)
    INF = float("inf")
    cost = [[INF] * (H + 1) for _ in range(R + 1)]
    lo = [[0] * (H + 1) for _ in range(R + 1)]
    hi = [[0] * (H + 1) for _ in range(R + 1)]
    cost[0][0] = 0.0
    for r in range(R + 1):
        for h in range(H + 1):
            if r == 0 and h == 0:
                continue
            cands = []
            if r > 0:
                cands.append((cost[r - 1][h] + dele, lo[r - 1][h] + 1, hi[r - 1][h] + 1))
            if h > 0:
                cands.append((cost[r][h - 1] + ins, lo[r][h - 1] + 1, hi[r][h - 1] + 1))
            if r > 0 and h > 0:
                same = ref[r - 1] == hyp[h - 1]
                cands.append((cost[r - 1][h - 1] + (0 if same else sub), lo[r - 1][h - 1] + (0 if same else 1), hi[r - 1][h - 1] + (0 if same else 1)))
            m = min(c[0] for c in cands)
            best = [c for c in cands if abs(c[0] - m) < 1e-9]
            cost[r][h], lo[r][h], hi[r][h] = m, min(c[1] for c in best), max(c[2] for c in best)
    return cost[R][H], lo[R][H], hi[R][H]


class Er(Pipeline):
    POOLED = False
    WEIGHT = 1.5

    @staticmethod
    def gen(rng, sc):
        n = rng.choice([1, 2, 3, 4, 6, 8])
        utts = []
        for uid in gen_ids(rng, n):
            ref = [rng.choice(WORDS[:4]) for _ in range(rng.randrange(0, 6))]
            hyp = list(ref)
            for _ in range(rng.randrange(0, 4)):
                k = rng.random()
                if k < 0.35 and hyp:
                    del hyp[rng.randrange(len(hyp))]
                elif k < 0.7:
                    hyp.insert(rng.randrange(len(hyp) + 1), rng.choice(WORDS[:4]))
                elif hyp:
                    hyp[rng.randrange(len(hyp))] = rng.choice(WORDS[:4])
            utts.append({"id": uid, "ref": ref, "hyp": hyp})
        return {"utts": utts, "batch_sizes": rng.sample([1, 2, 3, 100], 3), "replace": rng.choice([None, None, [["b", "a"]], [["c", "d"], ["a", "b"]], [["a", "b"], ["b", "c"]], [["a", "b"], ["b", "a"]]]),  # incl. a chain and a swap: each token is looked up once
                "ignore": rng.choice([None, None, ["a"], ["d", "b"]]), "per_utt": rng.random() < 0.35, "distances": rng.random() < 0.25,
                "costs": rng.choice([None, None, None, "nist", [1.0, 2.0, 1.0], [2.0, 1.0, 3.0], [1.0, 1.0, 2.0]]), "id2token": rng.random() < 0.6, "dims": rng.choice([1, 2]),
                "hyp_positional": rng.random() < 0.5,
                # stored ids below zero (a -> -1, b -> -2, ...): legal ids that coincide with values a command may use internally
                "neg_ids": rng.random() < 0.2,
                # the vocabulary file in '<token> <id>' order with --swap; one hypothesis missing with --warn-missing
                "swap": rng.random() < 0.3, "missing": rng.random() < 0.2}

    @staticmethod
    def run(sc, s, cfg, res):
        rd, hd = (s.p("d", "ref"), s.p("d", "hyp")) if not sc["hyp_positional"] else (s.p("r"), s.p("h"))
        os.makedirs(rd)
        os.makedirs(hd)
        TOK2ID = {tok: (-i - 1 if sc.get("neg_ids") else i) for tok, i in VOCAB}
        for u in sc["utts"]:
            for d, toks in ((rd, u["ref"]), (hd, u["hyp"])):
                t = torch.tensor([TOK2ID[x] for x in toks], dtype=torch.long)
                if sc["dims"] == 2:
                    t = torch.stack([t, torch.full_like(t, -1), torch.full_like(t, -1)], -1).reshape(-1, 3)
                torch.save(t, os.path.join(d, fname(sc, u["id"])))
        with open(s.p("i2t"), "w") as f:
            for tok, _ in VOCAB:
                f.write(f"{tok} {TOK2ID[tok]}\n" if sc.get("swap") else f"{TOK2ID[tok]} {tok}\n")
        gone = Er.missing_utt(sc)
        if gone is not None:
            os.remove(os.path.join(hd, fname(sc, gone)))

        def enc(x):
            return x if sc["id2token"] else str(TOK2ID[x])

        if sc["replace"]:
            with open(s.p("replace"), "w") as f:
                for a, b in sc["replace"]:
                    f.write(f"{enc(a)} {enc(b)}\n")
        if sc["ignore"]:
            with open(s.p("ignore"), "w") as f:
                f.write(" ".join(enc(x) for x in sc["ignore"]) + "\n")
        outs, printed = [], []
        for bs in sc["batch_sizes"]:
            a = ([rd, hd] if sc["hyp_positional"] else [s.p("d")]) + [s.p(f"out{bs}")] + naming_args(sc) + ["--batch-size", bs, "--quiet"]
            if not sc["hyp_positional"]:
                a = [s.p("d")] + naming_args(sc) + ["--batch-size", bs, "--quiet"]
            if sc["id2token"]:
                a += ["--id2token", s.p("i2t")] + (["--swap"] if sc.get("swap") else [])
            if gone is not None:
                a.append("--warn-missing")
            if sc["replace"]:
                a += ["--replace", s.p("replace")]
            if sc["ignore"]:
                a += ["--ignore", s.p("ignore")]
            if sc["per_utt"]:
                a.append("--per-utt")
            if sc["distances"]:
                a.append("--distances")
            if sc["costs"] == "nist":
                a.append("--nist-costs")
            elif sc["costs"]:
                a += ["--costs"] + sc["costs"]
            o = run_command("compute_torch_token_data_dir_error_rates", a)
            outs.append(o)
            if sc["hyp_positional"] and os.path.exists(s.p(f"out{bs}")):
                printed.append(open(s.p(f"out{bs}")).read())
            else:
                printed.append(o.out)
        return {"status": status_of(outs), "snap": {}, "printed": printed, "outcomes": outs}

    @staticmethod
    def missing_utt(sc):
        """With --warn-missing an utterance lacking its hypothesis is excluded (needs another one to remain)."""
        if sc.get("missing") and len(sc["utts"]) >= 2:
            return sorted(u["id"] for u in sc["utts"])[len(sc["utts"]) // 2]
        return None

    @staticmethod
    def oracle(sc, s, out, res):
        gone = Er.missing_utt(sc)
        if gone is not None:
            sc = dict(sc, utts=[u for u in sc["utts"] if u["id"] != gone])
            res.bump("probe.er_missing_hypothesis_excluded")
        rep = dict(sc["replace"] or [])
        ign = set(sc["ignore"] or [])
        ins, dele, sub = (3.0, 3.0, 4.0) if sc["costs"] == "nist" else (sc["costs"] or [1.0, 1.0, 1.0])
        per = {}
        tot_lo = tot_hi = tot_len = 0
        for u in sorted(sc["utts"], key=lambda u: u["id"]):
            ref = [rep.get(t, t) for t in u["ref"] if rep.get(t, t) not in ign]
            hyp = [rep.get(t, t) for t in u["hyp"] if rep.get(t, t) not in ign]
            _, lo, hi = edit_stats(ref, hyp, ins, dele, sub)
            per[u["id"]] = (lo, hi, len(ref))
            tot_lo, tot_hi, tot_len = tot_lo + lo, tot_hi + hi, tot_len + len(ref)
        empty_ref = any(v[2] == 0 for v in per.values())
        for k, o in enumerate(out["outcomes"]):
            if o.exc is not None or o.rc:
                # an undefined figure may fail; a defined one may not
                undefined = tot_len == 0 and not sc["distances"] and not sc["per_utt"]
                if undefined:
                    res.bump("probe.undefined_error_rate")
                    continue
                res.violate("er.command-failed", f"error-rate command failed with {type(o.exc).__name__ if o.exc else o.rc}: {o.exc} although the requested figure "
                            f"(total edits / total reference length = [{tot_lo}..{tot_hi}] / {tot_len}) is well defined; an utterance has an empty reference: {empty_ref}",
                            pipeline="er", exc=type(o.exc).__name__ if o.exc else "rc", what="empty-ref" if empty_ref else "other")
                return
        texts = [p for p, o in zip(out["printed"], out["outcomes"]) if o.exc is None and not o.rc]
        if len(set(texts)) > 1:
            res.violate("er.batch-size", f"printed error rates depend on --batch-size {sc['batch_sizes']}: {texts}", pipeline="er")
            return
        if not texts:
            return
        text = texts[0]
        if sc["per_utt"]:
            rows = [l.split() for l in text.splitlines() if l.strip()]
            if [r[0] for r in rows] != sorted(per):
                res.violate("er.per-utt-ids", f"per-utterance lines list {[r[0] for r in rows]}, expected {sorted(per)}", pipeline="er")
                return
            for uid, val in rows:
                lo, hi, L = per[uid]
                d = 1 if sc["distances"] else L
                v = float(val)
                if d == 0:
                    # C02: an empty reference scores 0 when the hypothesis is also empty and 1 otherwise
                    if v != (0.0 if hi == 0 else 1.0):
                        res.violate("er.per-utt-empty-ref", f"utterance {uid} has an empty reference and {hi} insertions: printed {v}", pipeline="er")
                        return
                    continue
                if not (lo / d - 1e-6 <= v <= hi / d + 1e-6):
                    res.violate("er.per-utt", f"utterance {uid}: printed {v}, edits in [{lo}, {hi}] over reference length {L}", pipeline="er")
                    return
        else:
            v = float(text.strip())
            d = len(per) if sc["distances"] else tot_len
            if d == 0:
                res.violate("er.total", f"printed {v} although the {'number of utterances' if sc['distances'] else 'total reference length'} is 0 (the figure is undefined)", pipeline="er")
                return
            if not (tot_lo / d - 1e-6 <= v <= tot_hi / d + 1e-6):
                res.violate("er.total", f"printed {v}; total edits in [{tot_lo}, {tot_hi}] divided by {'utterances' if sc['distances'] else 'total reference length'} {d} "
                            f"= [{tot_lo / d:.6f}, {tot_hi / d:.6f}]", pipeline="er")


# =======================================================================================
# 6. subset
# =======================================================================================
class Subset(Pipeline):
    @staticmethod
    def gen(rng, sc):
        n = rng.choice([1, 2, 3, 4, 6, 8])
        utts = [{"id": uid, "T": rng.randrange(1, 7), "ali": rng.random() < 0.8, "ref": rng.random() < 0.8} for uid in gen_ids(rng, n)]
        crit = rng.choice(["first-n", "last-n", "first-ratio", "last-ratio", "shortest-n", "longest-n", "shortest-ratio", "longest-ratio", "utt-list", "utt-list-file", "rand-n", "rand-ratio"])
        return {"utts": utts, "crit": crit, "n_arg": rng.randrange(0, n + 3), "ratio": rng.choice([0.0, 0.25, 0.5, 0.34, 1.0]),
                "listed": rng.sample([u["id"] for u in utts] + ["nosuch"], rng.randrange(1, n + 1)), "style": rng.choice(["link", "copy", "symlink"]), "seed": rng.randrange(100),
                "with_ali_dir": rng.random() < 0.8, "with_ref_dir": rng.random() < 0.8, "only": rng.random() < 0.2,
                "subdirs": rng.choice([None, None, None, ["fbank", "pdf", "txt"]])}  # --feat-subdir / --ali-subdir / --ref-subdir

    @staticmethod
    def names(sc):
        return sc.get("subdirs") or ["feat", "ali", "ref"]

    @staticmethod
    def run(sc, s, cfg, res):
        FD, AD, RD = Subset.names(sc)
        for d in [FD] + ([AD] if sc["with_ali_dir"] else []) + ([RD] if sc["with_ref_dir"] else []):
            os.makedirs(s.p("src", d))
        for k, u in enumerate(sc["utts"]):
            torch.save(torch.full((u["T"], 2), float(k)), s.p("src", FD, fname(sc, u["id"])))
            if sc["with_ali_dir"] and u["ali"]:
                torch.save(torch.full((u["T"],), k, dtype=torch.long), s.p("src", AD, fname(sc, u["id"])))
            if sc["with_ref_dir"] and u["ref"]:
                torch.save(torch.tensor([k, k + 1]), s.p("src", RD, fname(sc, u["id"])))
        with open(s.p("src", FD, "stray.txt"), "w") as f:
            f.write("x")
        with open(s.p("list"), "w") as f:
            f.write("\n".join(sc["listed"]) + "\n")
        src = s.p("src", FD) if sc["only"] else s.p("src")
        a = [src, s.p("dest")] + naming_args(sc) + cfg.args()
        if sc.get("subdirs") and not sc["only"]:
            a += ["--feat-subdir", FD, "--ali-subdir", AD, "--ref-subdir", RD]
        c = sc["crit"]
        if c == "utt-list":
            a += ["--utt-list"] + sc["listed"]
        elif c == "utt-list-file":
            a += ["--utt-list-file", s.p("list")]
        elif c.endswith("-n"):
            a += ["--" + c, sc["n_arg"]]
        else:
            a += ["--" + c, sc["ratio"]]
        if c.startswith("rand"):
            a += ["--seed", sc["seed"]]
        if sc["style"] == "copy":
            a.append("--copy")
        elif sc["style"] == "symlink":
            a.append("--symlink")
        if sc["only"]:
            a.append("--only")
        o = run_command("subset_torch_spect_data_dir", a)
        snap = {}
        # resolve links to content so that runs compare by what the files hold
        for dirpath, _, files in os.walk(s.p("dest")):
            for fn in files:
                full = os.path.join(dirpath, fn)
                rel = os.path.relpath(full, s.p("dest"))
                try:
                    snap[rel] = ("obj", describe(load(full)), "symlink" if os.path.islink(full) else ("hard" if os.stat(full).st_nlink > 1 else "copy"))
                except Exception as e:  # noqa
                    snap[rel] = ("unreadable", type(e).__name__)
        return {"status": status_of([o]), "snap": {"dest": snap}, "outcomes": [o]}

    @staticmethod
    def oracle(sc, s, out, res):
        o = out["outcomes"][0]
        if o.exc is not None or o.rc:
            res.violate("subset.command-failed", f"subset command failed: {type(o.exc).__name__ if o.exc else o.rc}: {o.exc}", pipeline="subset")
            return
        ids = sorted(u["id"] for u in sc["utts"])
        T = {u["id"]: u["T"] for u in sc["utts"]}
        N = len(ids)
        c = sc["crit"]
        n = min(sc["n_arg"], N) if c.endswith("-n") else int(N * sc["ratio"])
        if c.startswith("first"):
            want = set(ids[:n])
        elif c.startswith("last"):
            want = set(ids[N - n:]) if n else set()
        elif c.startswith("shortest"):
            want = set(sorted(ids, key=lambda i: (T[i], i))[:n])
        elif c.startswith("longest"):
            want = set(sorted(ids, key=lambda i: (-T[i], i))[:n])
        elif c.startswith("utt-list"):
            want = set(sc["listed"]) & set(ids)
        else:
            want = None
        snap = out["snap"]["dest"]
        FD, AD, RD = Subset.names(sc)
        feat_sd = "" if sc["only"] else FD + "/"
        got = {k[len(feat_sd):] for k in snap if k.startswith(feat_sd) and "/" not in k[len(feat_sd):]} if feat_sd else set(snap)
        got_ids = set()
        for fn in got:
            if not (fn.startswith(sc["prefix"]) and fn.endswith(sc["suffix"])):
                res.violate("subset.stray-copied", f"destination holds {fn}, which is not an utterance file", pipeline="subset")
                return
            got_ids.add(fn[len(sc["prefix"]): len(fn) - len(sc["suffix"])])
        if want is None:
            if len(got_ids) != n or not got_ids <= set(ids):
                res.violate("subset.count", f"--{c}: {len(got_ids)} utterances selected, expected {n}", pipeline="subset")
                return
            want = got_ids
        if got_ids != want:
            res.violate("subset.selection", f"--{c} (n={sc['n_arg']}, ratio={sc['ratio']}, listed={sc['listed']}): destination holds {sorted(got_ids)}, requested {sorted(want)} of {ids}",
                        pipeline="subset", what=c.split("-")[0])
            return
        by_id = {u["id"]: (k, u) for k, u in enumerate(sc["utts"])}
        expect = {}
        for uid in want:
            k, u = by_id[uid]
            fn = fname(sc, uid)
            expect[feat_sd + fn] = ("tensor", "torch.float32", (u["T"], 2), [[float(k)] * 2] * u["T"])
            if not sc["only"]:
                if sc["with_ali_dir"] and u["ali"]:
                    expect[AD + "/" + fn] = ("tensor", "torch.int64", (u["T"],), [k] * u["T"])
                if sc["with_ref_dir"] and u["ref"]:
                    expect[RD + "/" + fn] = ("tensor", "torch.int64", (2,), [k, k + 1])
        if set(snap) != set(expect):
            res.violate("subset.files", f"destination files {sorted(snap)} != files of the requested utterances {sorted(expect)}", pipeline="subset")
            return
        kind = {"link": "hard", "copy": "copy", "symlink": "symlink"}[sc["style"]]
        for rel, desc in expect.items():
            if snap[rel][0] != "obj" or snap[rel][1] != desc:
                res.violate("subset.content", f"{rel} in the destination is not identical to its source", pipeline="subset")
                return
            if snap[rel][2] != kind:
                res.violate("subset.link-style", f"{rel}: expected a {kind}, found {snap[rel][2]}", pipeline="subset")
                return


# =======================================================================================
# 7. statistics: length moments of ali/ and ref/, mvn stats, info
# =======================================================================================
def fmt_close(printed, value, prec):
    """Within one unit of the last printed digit of the float64 recomputation."""
    try:
        return abs(float(printed) - value) <= 10 ** (-prec) + 1e-12
    except ValueError:
        return False


class Stats(Pipeline):
    WEIGHT = 1.5

    @staticmethod
    def gen(rng, sc):
        n = rng.choice([0, 1, 2, 3, 4, 6, 8])
        utts = []
        for uid in gen_ids(rng, n):
            T = rng.randrange(1, 9)
            ali, cur = [], rng.randrange(4)
            for _ in range(T):
                if rng.random() < 0.4:
                    cur = rng.randrange(4)
                ali.append(cur)
            R = rng.randrange(0, 4)
            ref = []
            for _ in range(R):
                a = rng.randrange(0, T + 1)
                b = rng.randrange(a, T + 1)
                ref.append([rng.randrange(4), a, b] if rng.random() < 0.85 else [rng.randrange(4), -1, -1])
            utts.append({"id": uid, "ali": ali, "ref": ref, "F": 2})
        return {"utts": utts, "what": rng.choice(["ali", "ref", "mvn", "info"]), "bessel": rng.random() < 0.4, "std": rng.random() < 0.4, "prec": rng.choice([3, 3, 1, 5]),
                "exclude": rng.choice([None, None, [0], [1, 3]]), "groups": rng.choice([0, 0, 2]), "salt": rng.randrange(1000),
                "strict": rng.random() < 0.3}  # ref length moments: --strict (error when boundary info is missing) instead of --quiet

    @staticmethod
    def size(sc):
        return len(sc["utts"])

    @staticmethod
    def feats(sc, k, u):
        r = random.Random(sc["salt"] * 131 + k)
        return torch.tensor([[r.randrange(-20, 21) * 0.25 for _ in range(u["F"])] for _ in range(len(u["ali"]))], dtype=torch.float32).reshape(len(u["ali"]), u["F"])

    @staticmethod
    def run(sc, s, cfg, res):
        for d in ("feat", "ali", "ref"):
            os.makedirs(s.p("d", d))
        for k, u in enumerate(sc["utts"]):
            torch.save(Stats.feats(sc, k, u), s.p("d", "feat", fname(sc, u["id"])))
            torch.save(torch.tensor(u["ali"], dtype=torch.long), s.p("d", "ali", fname(sc, u["id"])))
            torch.save(torch.tensor(u["ref"], dtype=torch.long).reshape(-1, 3), s.p("d", "ref", fname(sc, u["id"])))
        w = sc["what"]
        printed = None
        snap = {}
        if w in ("ali", "ref"):
            a = [s.p("d", w), s.p("out.txt")] + naming_args(sc) + cfg.args() + ["--precision", sc["prec"]]
            if sc["bessel"]:
                a.append("--bessel")
            if sc["std"]:
                a.append("--std")
            if sc["exclude"]:
                a += ["--exclude-ids"] + sc["exclude"]
            if w == "ref":
                a.append("--strict" if sc.get("strict") else "--quiet")
            o = run_command(f"print_torch_{w}_data_dir_length_moments", a)
            printed = open(s.p("out.txt")).read() if os.path.exists(s.p("out.txt")) else None
        elif w == "mvn":
            a = [s.p("d", "feat"), s.p("stats.pt")] + naming_args(sc) + ["--num-workers", cfg.workers]
            if sc["bessel"]:
                a.append("--bessel")
            if sc["groups"]:
                with open(s.p("id2gid"), "w") as f:
                    for k, u in enumerate(sc["utts"]):
                        f.write(f"{u['id']} g{k % sc['groups']}\n")
                a += ["--id2gid", s.p("id2gid")]
            o = run_command("compute_mvn_stats_for_torch_feat_data_dir", a)
            snap = {"stats": snapshot(s.p("stats.pt")) if os.path.exists(s.p("stats.pt")) else {}}
            if os.path.exists(s.p("stats.pt")):
                snap = {"stats": {"stats.pt": ("obj", describe(load(s.p("stats.pt"))))}}
        else:
            a = [s.p("d"), s.p("info.txt")] + naming_args(sc) + ["--strict"]
            o = run_command("get_torch_spect_data_dir_info", a)
            printed = open(s.p("info.txt")).read() if os.path.exists(s.p("info.txt")) else None
        return {"status": status_of([o]), "snap": snap, "printed": printed, "outcomes": [o]}

    @staticmethod
    def oracle(sc, s, out, res):
        o = out["outcomes"][0]
        w = sc["what"]
        n = len(sc["utts"])
        if w in ("ali", "ref"):
            if w == "ref" and sc.get("strict"):
                ex0 = set(sc["exclude"] or [])
                lacking = any(a < 0 and tok not in ex0 for u in sc["utts"] for tok, a, b in u["ref"])
                failed = o.exc is not None or bool(o.rc)
                if lacking != failed:
                    res.violate("stats.strict", f"ref length moments --strict: boundary info is {'missing' if lacking else 'complete'} (outside the excluded ids) and the command "
                                f"{'failed' if failed else 'succeeded'}", pipeline="stats", what="strict")
                    return
                if failed:
                    res.bump("probe.strict_refused_missing_boundaries")
                    return
            if o.exc is not None or o.rc:
                res.violate("stats.command-failed", f"{w} length-moment printer failed: {type(o.exc).__name__ if o.exc else o.rc}: {o.exc}", pipeline="stats", what=w)
                return
            ex = set(sc["exclude"] or [])
            lens = []
            for u in sc["utts"]:
                if w == "ali":
                    runs = []
                    for a in u["ali"]:
                        if runs and runs[-1][0] == a:
                            runs[-1][1] += 1
                        else:
                            runs.append([a, 1])
                    lens += [l for a, l in runs if a not in ex]
                else:
                    lens += [b - a for tok, a, b in u["ref"] if a >= 0 and tok not in ex]
            text = (out["printed"] or "").strip()
            if not lens:
                if text != "n/a (n/a)":
                    res.violate("stats.moments", f"no segments, printed {text!r}", pipeline="stats", what=w)
                return
            x = np.array(lens, dtype=np.float64)
            mean = x.mean()
            try:
                pm, pv = text.split()
                pv = pv.strip("()")
            except ValueError:
                res.violate("stats.moments-format", f"printed {text!r}", pipeline="stats", what=w)
                return
            if sc["bessel"] and len(x) == 1:
                ok_v = pv == "n/a"
            else:
                var = x.var(ddof=1 if sc["bessel"] else 0)
                val = math.sqrt(var) if sc["std"] else var
                ok_v = fmt_close(pv, val, sc["prec"])
            if not fmt_close(pm, mean, sc["prec"]) or not ok_v:
                res.violate("stats.moments", f"{w} length moments printed {text!r}; pooled over {len(x)} segments: mean {mean:.6f}, "
                            f"{'std' if sc['std'] else 'var'}{' (Bessel)' if sc['bessel'] else ''} recomputed in float64", pipeline="stats", what=w)
            return
        if w == "mvn":
            groups = {}
            for k, u in enumerate(sc["utts"]):
                groups.setdefault(f"g{k % sc['groups']}" if sc["groups"] else None, []).append(Stats.feats(sc, k, u).double().numpy())
            counts = {g: sum(len(x) for x in v) for g, v in groups.items()}
            if not groups or min(counts.values()) < 2:
                return  # too few frames: outcome not judged here (C18)
            if o.exc is not None or o.rc:
                res.violate("stats.command-failed", f"mvn stats command failed: {type(o.exc).__name__ if o.exc else o.rc}: {o.exc}", pipeline="stats", what=w)
                return
            desc = out["snap"]["stats"]["stats.pt"][1]
            got = dict(desc[1])
            if set(got) == {"mean", "std"}:
                got = {str(next(iter(groups))): desc}
            for g, xs in groups.items():
                x = np.concatenate(xs, 0)
                d = dict(got[str(g)][1]) if str(g) in got else None
                if d is None:
                    res.violate("stats.mvn-groups", f"group {g} missing from the statistics file", pipeline="stats", what=w)
                    return
                mean, std = np.array(d["mean"][3]), np.array(d["std"][3])
                if not np.allclose(mean, x.mean(0), rtol=1e-4, atol=1e-4) or not np.allclose(std, x.std(0, ddof=1 if sc["bessel"] else 0), rtol=2e-3, atol=2e-3):
                    res.violate("stats.mvn", f"group {g}: stored mean/std {mean.tolist()}/{std.tolist()} are not the pooled moments of its files", pipeline="stats", what=w)
                    return
            return
        # info
        if o.exc is not None or o.rc:
            res.violate("stats.command-failed", f"info command failed on a well-formed directory: {type(o.exc).__name__ if o.exc else o.rc}: {o.exc}", pipeline="stats", what=w)
            return
        got = dict((l.split()[0], int(l.split()[1])) for l in (out["printed"] or "").splitlines() if l.strip())
        want = {"num_utterances": n, "total_frames": sum(len(u["ali"]) for u in sc["utts"])}
        if n:
            want["num_filts"] = 2
            want["total_tokens"] = sum(len(u["ref"]) for u in sc["utts"])
        for k, v in want.items():
            if got.get(k) != v:
                res.violate("stats.info", f"info reports {k} = {got.get(k)}, recount {v}", pipeline="stats", what=w)
                return


PIPELINES = {"ali": Ali, "trn": Trn, "ctm": Ctm, "tg": Tg, "er": Er, "subset": Subset, "stats": Stats}


# =======================================================================================
# 8. chunking a data directory (C10's last clause)
# =======================================================================================
class Chunk(Pipeline):
    WEIGHT = 2.0

    @staticmethod
    def gen(rng, sc):
        n = rng.choice([0, 1, 2, 3, 4])
        utts = []
        idx_names = rng.random() < 0.35
        for uid in gen_ids(rng, n):
            T = rng.randrange(1, 10)
            ali, cur = [], rng.randrange(4)
            for _ in range(T):
                if rng.random() < 0.45:
                    cur = rng.randrange(4)
                ali.append(cur)
            segs = set()
            ref = []
            for _ in range(rng.randrange(0, 5)):
                k = rng.random()
                if k < 0.2:
                    ref.append([rng.randrange(6), -1, -1])
                    continue
                a = rng.randrange(0, T + 1)
                b = a if k < 0.3 else rng.randrange(a, T + 1)
                if (a, b) in segs and not idx_names:
                    continue  # with the default names, equal windows collapse into one file
                segs.add((a, b))
                ref.append([rng.randrange(6), a, b])
                if idx_names and rng.random() < 0.3:
                    ref.append([rng.randrange(6), a, b])  # e.g. a word and its tag on the same segment
            if rng.random() < 0.15:
                # a long transcript: vectorised code may change algorithm with size
                T = rng.randrange(20, 31)
                ali = [rng.randrange(4) for _ in range(T)]
                ref, segs = [], set()
                for _ in range(rng.randrange(17, 26)):
                    a = rng.randrange(0, T)
                    b = rng.randrange(a + 1, min(T, a + 6) + 1)
                    if (a, b) in segs and not idx_names:
                        continue
                    segs.add((a, b))
                    ref.append([rng.randrange(6), a, b])
            if rng.random() < 0.7 and (0, T) not in segs and ref:
                # a final token spanning to the end: makes 'lens omitted' cover every segment
                ref.append([rng.randrange(6), rng.randrange(0, T), T])
                if (ref[-1][1], T) in segs:
                    ref.pop()
            utts.append({"id": uid, "T": T, "ali": ali, "ref": ref})
        if rng.random() < 0.004:
            # one very long utterance: more than 1024 windows (block sizes, index widths)
            T = 1100
            ali = [(t // 37) % 4 for t in range(T)]
            ref = [[rng.randrange(6), a, a + rng.randrange(1, 4)] for a in sorted(rng.sample(range(0, T - 4), 12))] + [[2, -1, 5]]
            return {"utts": [{"id": "long", "T": T, "ali": ali, "ref": ref}], "policy": "fixed", "window": "symmetric", "lobe": 0, "pad_mode": None, "pad_constant": 0.0,
                    "partial": False, "retain": rng.random() < 0.5, "salt": rng.randrange(1000), "with_ali": True, "with_ref": True, "idx_names": False,
                    "subdirs": ["feat", "ali", "ref"], "huge": True}
        policy = rng.choice(["fixed", "ali", "ref"])
        return {"utts": utts, "policy": policy, "ref1d": policy != "ref" and rng.random() < 0.12, "window": rng.choice(["symmetric", "causal", "future"]), "lobe": rng.choice([0, 0, 1, 2, 3]),
                "pad_mode": rng.choice([None, None, "constant", "replicate", "reflect"]), "pad_constant": rng.choice([0.0, -1.0, 2.0]), "partial": rng.random() < 0.3,
                "retain": rng.random() < 0.25, "salt": rng.randrange(1000), "with_ali": rng.random() < 0.8, "with_ref": rng.random() < 0.8, "idx_names": idx_names,
                "subdirs": rng.choice([["feat", "ali", "ref"], ["feat", "ali", "ref"], ["f", "a", "r"], ["mfcc", "pdf", "txt"]])}

    @staticmethod
    def feats(sc, k, T):
        return (torch.arange(T * 2, dtype=torch.float32).reshape(T, 2) + 100.0 * (k + 1)).contiguous()

    @staticmethod
    def run(sc, s, cfg, res):
        with_ali = sc["with_ali"] or sc["policy"] == "ali"
        with_ref = sc["with_ref"] or sc["policy"] == "ref"
        FS, AS, RS = sc.get("subdirs", ["feat", "ali", "ref"])
        os.makedirs(s.p("in", FS))
        if with_ali:
            os.makedirs(s.p("in", AS))
        if with_ref:
            os.makedirs(s.p("in", RS))
        for k, u in enumerate(sc["utts"]):
            torch.save(Chunk.feats(sc, k, u["T"]), s.p("in", FS, fname(sc, u["id"])))
            if with_ali:
                torch.save(torch.tensor(u["ali"], dtype=torch.long), s.p("in", AS, fname(sc, u["id"])))
            if with_ref:
                if sc.get("ref1d"):  # token-only transcripts: a well-formed directory without segment boundaries
                    torch.save(torch.tensor([r[0] for r in u["ref"]], dtype=torch.long).reshape(-1), s.p("in", RS, fname(sc, u["id"])))
                else:
                    torch.save(torch.tensor(u["ref"], dtype=torch.long).reshape(-1, 3), s.p("in", RS, fname(sc, u["id"])))
        a = [s.p("in"), s.p("out")] + naming_args(sc) + cfg.args() + ["--policy", sc["policy"], "--lobe-size", sc["lobe"], "--window-type", sc["window"], "--quiet"]
        if sc["pad_mode"]:
            a += ["--pad-mode", sc["pad_mode"], "--pad-constant", sc["pad_constant"]]
        if sc["partial"]:
            a.append("--partial-tokens")
        if sc["retain"]:
            a.append("--retain-token-boundaries")
        if sc.get("idx_names"):
            a += ["--format-utt", "{utt_id}.{idx:03d}.{start}.{end}"]
        if [FS, AS, RS] != ["feat", "ali", "ref"]:
            a += ["--feat-subdir", FS, "--ali-subdir", AS, "--ref-subdir", RS]
        o = run_command("chunk_torch_spect_data_dir", a)
        out = {"status": status_of([o]), "snap": {"out": snapshot(s.p("out"))}, "outcomes": [o], "validated": None, "iso": None}
        if cfg.workers == 0 and len(sc["utts"]) >= 2 and o.exc is None and not o.rc:
            # isolation: what is chunked out of one utterance must not depend on its neighbours
            k = sc["salt"] % len(sc["utts"])
            u = sc["utts"][k]
            import shutil

            for sd in (FS, AS, RS):
                src = s.p("in", sd, fname(sc, u["id"]))
                if os.path.exists(src):
                    os.makedirs(s.p("iso_in", sd), exist_ok=True)
                    shutil.copy(src, s.p("iso_in", sd, fname(sc, u["id"])))
            a_iso = [s.p("iso_in"), s.p("iso_out")] + a[2:]
            o_iso = run_command("chunk_torch_spect_data_dir", a_iso)
            out["iso"] = {"utt": u["id"], "status": o_iso.status(), "snap": snapshot(s.p("iso_out"))}
        if o.exc is None and not o.rc and cfg.workers == 0 and os.path.isdir(s.p("out", FS)):
            from pydrobert.torch import data
            import warnings

            try:
                with warnings.catch_warnings():
                    warnings.simplefilter("ignore")
                    ds = data.SpectDataSet(s.p("out"), file_prefix=sc["prefix"], file_suffix=sc["suffix"], suppress_alis=False, tokens_only=False, warn_on_missing=False,
                                           feat_subdir=FS, ali_subdir=AS, ref_subdir=RS)
                    data.validate_spect_data_set(ds)
                out["validated"] = True
            except ValueError as e:
                out["validated"] = str(e).replace(s.path, "<scratch>")
        return out

    @staticmethod
    def oracle(sc, s, out, res):
        o = out["outcomes"][0]
        P = "chunk"
        if isinstance(o.exc, NotImplementedError) and sc["pad_mode"] == "reflect":
            res.bump("probe.reflect_padding_limit")  # documented: reflect pads must be shorter than the sequence
            return
        if o.exc is not None or o.rc:
            res.violate("chunk.command-failed", f"chunk-torch-spect-data-dir --policy {sc['policy']} --window-type {sc['window']} --lobe-size {sc['lobe']} "
                        f"{'--pad-mode ' + sc['pad_mode'] if sc['pad_mode'] else ''} failed on a well-formed directory: {type(o.exc).__name__ if o.exc else o.rc}: {o.exc}",
                        pipeline=P, what=sc["policy"], exc=type(o.exc).__name__ if o.exc else "rc")
            return
        snap = out["snap"]["out"]
        with_ali = sc["with_ali"] or sc["policy"] == "ali"
        with_ref = sc["with_ref"] or sc["policy"] == "ref"
        parts = {"feat": {}, "ali": {}, "ref": {}}
        for rel, d in snap.items():
            part, fn = rel.split("/", 1)
            names = dict(zip(sc.get("subdirs", ["feat", "ali", "ref"]), ["feat", "ali", "ref"]))
            if part not in names:
                res.violate("chunk.subdirs", f"output holds a sub-directory {part!r}, expected {sorted(names)}", pipeline=P)
                return
            parts[names[part]][fn] = d
        if with_ali and set(parts["ali"]) != set(parts["feat"]) or with_ref and set(parts["ref"]) != set(parts["feat"]):
            res.violate("chunk.file-sets", "feat/, ali/ and ref/ of the chunked directory do not hold the same chunks", pipeline=P)
            return
        by_id = {u["id"]: (k, u) for k, u in enumerate(sc["utts"])}
        windows = {}
        indices = {}
        flipped = False
        for fn in sorted(parts["feat"]):
            if not (fn.startswith(sc["prefix"]) and fn.endswith(sc["suffix"])):
                res.violate("chunk.naming", f"chunk file {fn} lacks the prefix/suffix", pipeline=P)
                return
            cid = fn[len(sc["prefix"]): len(fn) - len(sc["suffix"])]
            if sc.get("idx_names"):
                uid, ix, a, b = cid.rsplit(".", 3)
                indices.setdefault(uid, []).append(int(ix))
            else:
                uid, a, b = cid.rsplit(".", 2)
            st, en = int(a), int(b)
            if uid not in by_id:
                res.violate("chunk.source", f"chunk {cid} names an unknown source utterance", pipeline=P)
                return
            k, u = by_id[uid]
            T = u["T"]
            windows.setdefault(uid, []).append((st, en))
            if not sc["pad_mode"] and not (0 <= st <= en <= T):
                res.violate("chunk.window-outside", f"valid-only chunk {cid} has window [{st}, {en}) outside its sequence of length {T}", pipeline=P, what=sc["policy"])
                return
            src = Chunk.feats(sc, k, T)
            feat = parts["feat"][fn][1]
            got = torch.tensor(feat[3], dtype=torch.float32).reshape(feat[2])
            if got.shape[0] != en - st:
                res.violate("chunk.length", f"chunk {cid} has {got.shape[0]} frames for a window of {en - st}", pipeline=P)
                return
            lo, hi = max(st, 0), min(en, T)
            if hi > lo and not torch.equal(got[lo - st: hi - st], src[lo:hi]):
                res.violate("chunk.features", f"features of chunk {cid} differ from source[{lo}:{hi}]", pipeline=P, what="feat")
                return
            if sc["pad_mode"] in ("constant", "replicate") and hi > lo:
                left, right = got[: lo - st], got[hi - st:]
                wl = torch.full_like(left, sc["pad_constant"]) if sc["pad_mode"] == "constant" else src[:1].expand_as(left)
                wr = torch.full_like(right, sc["pad_constant"]) if sc["pad_mode"] == "constant" else src[-1:].expand_as(right)
                if not torch.equal(left, wl) or not torch.equal(right, wr):
                    res.violate("chunk.padding", f"padded cells of chunk {cid} do not follow --pad-mode {sc['pad_mode']}", pipeline=P, what="feat")
                    return
            if with_ali:
                ali = parts["ali"][fn][1]
                ga = ali[3]
                if len(ga) != en - st or (hi > lo and ga[lo - st: hi - st] != u["ali"][lo:hi]):
                    res.violate("chunk.alignments", f"alignments of chunk {cid} differ from source[{lo}:{hi}]", pipeline=P, what="ali")
                    return
            if with_ref:
                ref = parts["ref"][fn][1]
                if sc["partial"]:
                    keep = [r for r in u["ref"] if r[1] >= 0 and r[2] >= 0 and r[2] >= r[1] and st < r[2] and en > r[1]]
                else:
                    keep = [r for r in u["ref"] if r[1] >= 0 and r[2] >= 0 and r[2] >= r[1] and st <= r[1] and en >= r[2]]
                if sc.get("ref1d"):
                    keep = []  # no known segments: nothing can be placed in a chunk
                    if ref[2] != (0,):
                        res.violate("chunk.tokens", f"chunk {cid} of a token-only transcript holds a reference of shape {ref[2]}, expected an empty 1-D one", pipeline=P, what="tokens")
                        return
                want = [[t, a_ - (0 if sc["retain"] else st), b_ - (0 if sc["retain"] else st)] for t, a_, b_ in keep]
                got_r = ref[3] if ref[2][0] else []
                if got_r != want:
                    if not sc["retain"] and st != 0 and got_r == [[t, a_ + st, b_ + st] for t, a_, b_ in keep] and keep:
                        flipped = True  # known finding D15
                    elif [r[0] for r in got_r] != [r[0] for r in want]:
                        res.violate("chunk.tokens", f"chunk {cid}: tokens {got_r}, expected the tokens {'overlapping' if sc['partial'] else 'contained in'} [{st}, {en}): {want}", pipeline=P, what="tokens")
                        return
                    else:
                        res.violate("chunk.token-boundaries", f"chunk {cid}: token boundaries {got_r}, expected offsets from the slice start: {want}", pipeline=P, what="boundaries", sign_flipped=False)
                        return
        iso = out.get("iso")
        if iso and iso["status"] == ("rc", 0):
            mine = {rel: d for rel, d in snap.items() if rel.split("/", 1)[1].startswith(sc["prefix"] + iso["utt"] + ".")
                    and rel.split("/", 1)[1][len(sc["prefix"]) + len(iso["utt"]) + 1:].split(".")[0].lstrip("-").isdigit()}
            if mine != iso["snap"]:
                res.violate("chunk.isolation", f"the chunks of utterance {iso['utt']} differ when it is chunked alone ({len(iso['snap'])} files) and together with the others ({len(mine)} files)",
                            pipeline=P, what=sc["policy"])
                return
        if sc.get("idx_names"):
            for uid, ixs in indices.items():
                if sorted(ixs) != list(range(len(ixs))):
                    res.violate("chunk.indices", f"chunk indices of {uid} are {sorted(ixs)}, expected 0..{len(ixs) - 1}", pipeline=P)
                    return
            if sc["policy"] == "ali" and sc["pad_mode"]:
                # without valid-only every segment yields exactly one slice, whatever the lobes
                for uid, (k, u) in by_id.items():
                    runs = sum(1 for t in range(u["T"]) if t == 0 or u["ali"][t] != u["ali"][t - 1])
                    if len(windows.get(uid, [])) != runs:
                        res.violate("chunk.windows", f"policy ali without valid-only on {uid}: {len(windows.get(uid, []))} chunks for {runs} segments (one slice per segment is documented)",
                                    pipeline=P, what="ali-count")
                        return
        # the driver against the library's own slicer (every lobe size, valid-only): chunking a directory by a
        # policy means one chunk per window that slice_spect_data returns for the utterance alone
        if not sc["pad_mode"]:
            from pydrobert.torch.functional import slice_spect_data

            for uid, (k, u) in by_id.items():
                T = u["T"]
                if sc["policy"] == "fixed":
                    src = Chunk.feats(sc, k, T).unsqueeze(0)
                elif sc["policy"] == "ali":
                    src = torch.tensor(u["ali"], dtype=torch.long).unsqueeze(0)
                else:
                    src = torch.tensor(u["ref"], dtype=torch.long).reshape(-1, 3).unsqueeze(0)
                try:
                    sl, _ = slice_spect_data(src, None, None, sc["policy"], sc["window"], True, sc["lobe"])
                except Exception:  # noqa: the slicer itself refuses this input: not the driver's business
                    continue
                want_w = sorted((int(a_), int(b_)) for a_, b_ in sl.tolist())
                got_w = sorted(windows.get(uid, []))
                if not sc.get("idx_names"):
                    want_w = sorted(set(want_w))  # equal windows share one name
                if got_w != want_w:
                    res.violate("chunk.windows", f"policy {sc['policy']} ({sc['window']}, lobe {sc['lobe']}, valid only) on utterance {uid} (T={T}): the command wrote chunks for windows {got_w}, "
                                f"slice_spect_data returns {want_w} for that utterance", pipeline=P, what="driver-vs-slicer")
                    return
            res.bump("probe.chunk_windows_vs_slicer")
        # which windows exist: judged only for lobe size 0, where the documented policy is unambiguous
        if sc["lobe"] == 0:
            for uid, (k, u) in by_id.items():
                got_w = sorted(windows.get(uid, []))
                T = u["T"]
                if sc["policy"] == "fixed":
                    want_w = [(t, t + 1) for t in range(T)]
                elif sc["policy"] == "ali":
                    want_w, t0 = [], 0
                    for t in range(1, T + 1):
                        if t == T or u["ali"][t] != u["ali"][t - 1]:
                            want_w.append((t0, t))
                            t0 = t
                else:
                    known = [(a_, b_) for _, a_, b_ in u["ref"] if a_ >= 0 and b_ >= 0]
                    last = u["ref"][-1] if u["ref"] else None
                    if last is None:
                        want_w = []
                    elif last[2] < 0 or any(b_ > last[2] for _, b_ in known):
                        continue  # 'lens omitted' is defined through the final segment's end: not judged
                    else:
                        want_w = sorted((a_, b_) for a_, b_ in known if a_ < b_)
                if got_w != sorted(want_w):
                    res.violate("chunk.windows", f"policy {sc['policy']} with lobe size 0 on utterance {uid} (T={T}): windows {got_w}, documented {sorted(want_w)}", pipeline=P, what=sc["policy"])
                    return
        if flipped:
            res.violate("chunk.token-boundaries", "chunk token boundaries are source boundaries PLUS the slice start instead of minus (start != 0, not retained)", pipeline=P,
                        what="boundaries", sign_flipped=True)
            return
        if out["validated"] not in (None, True) and not sc["partial"] and not sc["retain"]:
            res.violate("chunk.invalid-directory", f"the chunked directory fails validate_spect_data_set: {out['validated']}", pipeline=P)

    @staticmethod
    def shrink(sc):
        yield from drop_utts(sc)
        for k, v in {"lobe": 0, "pad_mode": None, "partial": False, "retain": False, "window": "symmetric", "with_ali": False, "with_ref": False}.items():
            if sc[k] != v:
                c = copy.deepcopy(sc)
                c[k] = v
                yield c
        for i, u in enumerate(sc["utts"]):
            for j in range(len(u["ref"])):
                c = copy.deepcopy(sc)
                del c["utts"][i]["ref"][j]
                yield c
            if u["T"] > 1:
                c = copy.deepcopy(sc)
                T = u["T"] - 1
                c["utts"][i]["T"] = T
                c["utts"][i]["ali"] = u["ali"][:T]
                c["utts"][i]["ref"] = [r for r in u["ref"] if r[2] <= T]
                yield c


PIPELINES["chunk"] = Chunk


class ChunkWorkers(Chunk):
    """The chunk command inside C17: only success and worker-count independence are judged
    here; what the chunks must contain is C10's check."""

    WEIGHT = 0.7

    @staticmethod
    def oracle(sc, s, out, res):
        o = out["outcomes"][0]
        if isinstance(o.exc, NotImplementedError) and sc["pad_mode"] == "reflect":
            return
        if o.exc is not None or o.rc:
            res.violate("chunk.command-failed", f"chunk command failed: {type(o.exc).__name__ if o.exc else o.rc}: {o.exc}", pipeline="chunk-workers", what=sc["policy"])


PIPELINES["chunk-workers"] = ChunkWorkers
