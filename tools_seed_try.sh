#!/bin/bash
# usage: tools_seed_try.sh [--in-place] <seeded-dir-name> [check ids...]
# Runs the named checks (default: the change's own property) against the seeded change.
# Default: in a private scratch worktree of /repo (VERIF_REPO), so /repo is never touched and several
# of these can run at once. --in-place: git -C /repo apply, run, git -C /repo checkout -- . (the prescribed way).
inplace=0; [ "$1" = "--in-place" ] && { inplace=1; shift; }
name=$1; shift
ids=${@:-$(echo $name | cut -d- -f1)}
if [ $inplace = 1 ]; then
  git -C /repo status --short | grep -q . && { echo "/repo is dirty"; exit 2; }
  git -C /repo apply /verif/seeded/$name/patch.diff || { echo "patch does not apply"; exit 2; }
  for id in $ids; do echo "== $name vs $id"; /verif/check $id 2>&1 | grep -v "^KNOWN" | tail -4 | cut -c1-300; done
  git -C /repo checkout -- .
else
  wt=/tmp/seedtry-$$
  git -C /repo worktree add -q --detach $wt HEAD || exit 2
  git -C $wt apply /verif/seeded/$name/patch.diff || { echo "patch does not apply"; git -C /repo worktree remove --force $wt; exit 2; }
  for id in $ids; do echo "== $name vs $id"; VERIF_REPO=$wt /verif/check $id 2>&1 | grep -v "^KNOWN" | tail -4 | cut -c1-300; done
  git -C /repo worktree remove --force $wt
fi
